package main

// Real-arithmetic relaxation of floating-point obligations (standard rounding-error model):
//   fl(a op b) = (a op b)(1 + e) + n,  |e| <= 2^-53 (2^-24 for float32),  |n| <= 2^-1075 (2^-150)
// Bit-vector terms are translated to their unsigned value as mathematical integers (wrap-around kept with
// mod 2^w). An "unsat" answer for (path condition and not obligation) under this model proves the obligation
// for IEEE-754 arithmetic as long as no operation overflows to infinity (all values here are bounded by
// 64-bit integers times constants) and no NaN occurs (no FP variable enters: only int->float conversions).
// A "sat" answer proves nothing by itself: its integer inputs are kept as a CANDIDATE counterexample that is reported
// only if the native replay reproduces the failure (relaxedCheck).

import (
	"regexp"
	"strconv"
	"fmt"
	"math"
	"math/big"
	"os"
	"os/exec"
	"strings"
)

type relaxer struct {
	ctx    *Ctx
	decls  strings.Builder
	sides  strings.Builder
	memo   map[*Term]string
	failed bool
	n      int
	vars   map[string]bool
	tight  bool
}

func hasFP(t *Term, seen map[*Term]bool) bool {
	if seen[t] {
		return false
	}
	seen[t] = true
	if t.S.K == KFP {
		return true
	}
	for _, a := range t.Args {
		if hasFP(a, seen) {
			return true
		}
	}
	return false
}

func pow2(k int) string { return new(big.Int).Lsh(big.NewInt(1), uint(k)).String() }

func ratOfFloat(f float64) string {
	r := new(big.Rat).SetFloat64(f)
	if r == nil {
		return ""
	}
	neg := r.Sign() < 0
	if neg {
		r.Neg(r)
	}
	s := fmt.Sprintf("(/ %s.0 %s.0)", r.Num().String(), r.Denom().String())
	if neg {
		s = "(- " + s + ")"
	}
	return s
}

func (r *relaxer) fresh(prefix, sort string) string {
	r.n++
	name := fmt.Sprintf("%s%d", prefix, r.n)
	fmt.Fprintf(&r.decls, "(declare-const %s %s)\n", name, sort)
	return name
}

// tr translates a term; BV -> Int expression of the unsigned value, FP -> Real, Bool -> Bool.
func (r *relaxer) tr(t *Term) string {
	if s, ok := r.memo[t]; ok {
		return s
	}
	s := r.tr1(t)
	if s == "" {
		r.failed = true
		s = "0"
	}
	// name it to keep sharing
	if len(s) > 40 {
		sort := "Int"
		if t.S.K == KFP {
			sort = "Real"
		} else if t.S.K == KBool {
			sort = "Bool"
		}
		r.n++
		name := fmt.Sprintf("r%d", r.n)
		fmt.Fprintf(&r.decls, "(define-fun %s () %s %s)\n", name, sort, s)
		s = name
	}
	r.memo[t] = s
	return s
}

func (r *relaxer) signed(t *Term) string {
	u := r.tr(t)
	w := t.S.W
	return fmt.Sprintf("(ite (< %s %s) %s (- %s %s))", u, pow2(w-1), u, u, pow2(w))
}

func (r *relaxer) unsignedOfInt(k string, w int) string {
	return fmt.Sprintf("(ite (>= %s 0) %s (+ %s %s))", k, k, k, pow2(w))
}

func (r *relaxer) round(op Op, a string, fw int) string {
	u, eta := "(/ 1.0 9007199254740992.0)", "(/ 1.0 "+pow2(1075)+".0)"
	if fw == 32 {
		u, eta = "(/ 1.0 16777216.0)", "(/ 1.0 "+pow2(150)+".0)"
	}
	if r.tight {
		// candidate search only: a quarter of the unit round-off - a failure that survives it is one round-to-nearest
		// is likely to show (the replay decides)
		u = "(/ 1.0 36028797018963968.0)"
		if fw == 32 {
			u = "(/ 1.0 67108864.0)"
		}
	}
	e := r.fresh("e", "Real")
	n := r.fresh("n", "Real")
	fmt.Fprintf(&r.sides, "(assert (and (<= (- %s) %s) (<= %s %s) (<= (- %s) %s) (<= %s %s)))\n", u, e, e, u, eta, n, n, eta)
	return fmt.Sprintf("(+ (* %s (+ 1.0 %s)) %s)", a, e, n)
}

func (r *relaxer) tr1(t *Term) string {
	c := r.ctx
	switch t.S.K {
	case KBool:
		switch t.Op {
		case OConst:
			if t.Val == 1 {
				return "true"
			}
			return "false"
		case OVar:
			if !r.vars[t.Name] {
				r.vars[t.Name] = true
				fmt.Fprintf(&r.decls, "(declare-const %s Bool)\n", t.Name)
			}
			return t.Name
		case ONot:
			return "(not " + r.tr(t.Args[0]) + ")"
		case OAnd:
			return "(and " + r.tr(t.Args[0]) + " " + r.tr(t.Args[1]) + ")"
		case OOr:
			return "(or " + r.tr(t.Args[0]) + " " + r.tr(t.Args[1]) + ")"
		case OIte:
			return "(ite " + r.tr(t.Args[0]) + " " + r.tr(t.Args[1]) + " " + r.tr(t.Args[2]) + ")"
		case OEq:
			return "(= " + r.tr(t.Args[0]) + " " + r.tr(t.Args[1]) + ")"
		case OBvULt:
			return "(< " + r.tr(t.Args[0]) + " " + r.tr(t.Args[1]) + ")"
		case OBvULe:
			return "(<= " + r.tr(t.Args[0]) + " " + r.tr(t.Args[1]) + ")"
		case OBvSLt:
			return "(< " + r.signed(t.Args[0]) + " " + r.signed(t.Args[1]) + ")"
		case OBvSLe:
			return "(<= " + r.signed(t.Args[0]) + " " + r.signed(t.Args[1]) + ")"
		case OFLt:
			return "(< " + r.tr(t.Args[0]) + " " + r.tr(t.Args[1]) + ")"
		case OFLe:
			return "(<= " + r.tr(t.Args[0]) + " " + r.tr(t.Args[1]) + ")"
		case OFEq:
			return "(= " + r.tr(t.Args[0]) + " " + r.tr(t.Args[1]) + ")"
		case OFIsNaN:
			return "false"
		}
		return ""
	case KBV:
		w := t.S.W
		switch t.Op {
		case OConst:
			return fmt.Sprintf("%d", t.Val)
		case OVar:
			if !r.vars[t.Name] {
				r.vars[t.Name] = true
				fmt.Fprintf(&r.decls, "(declare-const %s Int)\n(assert (and (<= 0 %s) (< %s %s)))\n", t.Name, t.Name, t.Name, pow2(w))
			}
			return t.Name
		case OZExt:
			return r.tr(t.Args[0])
		case OSExt:
			return r.unsignedOfInt(r.signed(t.Args[0]), w)
		case OConcat:
			var parts []string
			pos := w
			for _, p := range t.Args {
				pos -= p.S.W
				parts = append(parts, fmt.Sprintf("(* %s %s)", r.tr(p), pow2(pos)))
			}
			return "(+ " + strings.Join(parts, " ") + ")"
		case OExtract:
			return fmt.Sprintf("(mod (div %s %s) %s)", r.tr(t.Args[0]), pow2(t.P2), pow2(t.P1-t.P2+1))
		case OBvAdd:
			return fmt.Sprintf("(mod (+ %s %s) %s)", r.tr(t.Args[0]), r.tr(t.Args[1]), pow2(w))
		case OBvSub:
			return fmt.Sprintf("(mod (- %s %s) %s)", r.tr(t.Args[0]), r.tr(t.Args[1]), pow2(w))
		case OBvMul:
			if t.Args[0].IsConst() || t.Args[1].IsConst() {
				return fmt.Sprintf("(mod (* %s %s) %s)", r.tr(t.Args[0]), r.tr(t.Args[1]), pow2(w))
			}
			return ""
		case OBvUDiv, OBvURem, OBvSDiv, OBvSRem:
			// by a positive constant only
			k := t.Args[1]
			if !k.IsConst() || k.Val == 0 || (w < 64 && k.Val >= uint64(1)<<uint(w-1)) || (w == 64 && k.Val >= uint64(1)<<63) {
				return ""
			}
			ks := fmt.Sprintf("%d", k.Val)
			switch t.Op {
			case OBvUDiv:
				return fmt.Sprintf("(div %s %s)", r.tr(t.Args[0]), ks)
			case OBvURem:
				return fmt.Sprintf("(mod %s %s)", r.tr(t.Args[0]), ks)
			}
			sx := r.signed(t.Args[0])
			q := fmt.Sprintf("(ite (>= %s 0) (div %s %s) (- (div (- %s) %s)))", sx, sx, ks, sx, ks) // truncation towards zero
			if t.Op == OBvSDiv {
				return r.unsignedOfInt(q, w)
			}
			return r.unsignedOfInt(fmt.Sprintf("(- %s (* %s %s))", sx, ks, q), w)
		case OBvShl, OBvLShr:
			k := t.Args[1]
			if !k.IsConst() || k.Val >= uint64(w) {
				return ""
			}
			if t.Op == OBvShl {
				return fmt.Sprintf("(mod (* %s %s) %s)", r.tr(t.Args[0]), pow2(int(k.Val)), pow2(w))
			}
			return fmt.Sprintf("(div %s %s)", r.tr(t.Args[0]), pow2(int(k.Val)))
		case OIte:
			return "(ite " + r.tr(t.Args[0]) + " " + r.tr(t.Args[1]) + " " + r.tr(t.Args[2]) + ")"
		case OFToS, OFToU:
			a := r.tr(t.Args[0])
			k := r.fresh("k", "Int")
			fmt.Fprintf(&r.sides, "(assert (ite (>= %s 0.0) (and (<= (to_real %s) %s) (< %s (+ (to_real %s) 1.0))) (and (>= (to_real %s) %s) (> %s (- (to_real %s) 1.0)))))\n", a, k, a, a, k, k, a, a, k)
			// in-range conversion assumed (Go leaves out-of-range conversions implementation-defined)
			return r.unsignedOfInt(k, w)
		}
		return ""
	default: // FP
		fw := t.S.W
		switch t.Op {
		case OConst:
			f := fbits(t)
			if math.IsNaN(f) || math.IsInf(f, 0) {
				return ""
			}
			return ratOfFloat(f)
		case OSToF, OUToF:
			in := t.Args[0]
			_, hi := c.URange(in)
			limit := uint64(1) << 53
			if fw == 32 {
				limit = 1 << 24
			}
			var v string
			if t.Op == OSToF {
				if in.S.W > 64 || hi >= uint64(1)<<uint(in.S.W-1) {
					// may be negative: exactness needs |v| <= limit, which URange cannot show
					return ""
				}
				v = r.tr(in)
			} else {
				v = r.tr(in)
			}
			if hi > limit {
				// inexact conversion: one rounding
				return r.round(t.Op, "(to_real "+v+")", fw)
			}
			return "(to_real " + v + ")"
		case OFAdd:
			return r.round(t.Op, "(+ "+r.tr(t.Args[0])+" "+r.tr(t.Args[1])+")", fw)
		case OFSub:
			return r.round(t.Op, "(- "+r.tr(t.Args[0])+" "+r.tr(t.Args[1])+")", fw)
		case OFMul:
			return r.round(t.Op, "(* "+r.tr(t.Args[0])+" "+r.tr(t.Args[1])+")", fw)
		case OFDiv:
			if !t.Args[1].IsConst() || fbits(t.Args[1]) == 0 {
				return ""
			}
			return r.round(t.Op, "(/ "+r.tr(t.Args[0])+" "+r.tr(t.Args[1])+")", fw)
		case OFNeg:
			return "(- " + r.tr(t.Args[0]) + ")"
		case OFMax:
			a, b := r.tr(t.Args[0]), r.tr(t.Args[1])
			return "(ite (>= " + a + " " + b + ") " + a + " " + b + ")"
		case OFMin:
			a, b := r.tr(t.Args[0]), r.tr(t.Args[1])
			return "(ite (<= " + a + " " + b + ") " + a + " " + b + ")"
		case OFRoundNA, OFCeil, OFFloor, OFTrunc:
			a := r.tr(t.Args[0])
			k := r.fresh("k", "Int")
			kr := "(to_real " + k + ")"
			switch t.Op {
			case OFRoundNA:
				fmt.Fprintf(&r.sides, "(assert (and (<= (- %s 0.5) %s) (<= %s (+ %s 0.5))))\n", a, kr, kr, a)
			case OFCeil:
				fmt.Fprintf(&r.sides, "(assert (and (<= %s %s) (< %s (+ %s 1.0))))\n", a, kr, kr, a)
			case OFFloor:
				fmt.Fprintf(&r.sides, "(assert (and (<= %s %s) (< %s (+ %s 1.0))))\n", kr, a, a, kr)
			default:
				fmt.Fprintf(&r.sides, "(assert (ite (>= %s 0.0) (and (<= %s %s) (< %s (+ %s 1.0))) (and (>= %s %s) (> %s (- %s 1.0)))))\n", a, kr, a, a, kr, kr, a, a, kr)
			}
			return kr
		case OFToF:
			if fw >= t.Args[0].S.W {
				return r.tr(t.Args[0])
			}
			return r.round(t.Op, r.tr(t.Args[0]), fw)
		}
		return ""
	}
}

// relaxedUnsat tries to show (pc and not cond) unsatisfiable in the real error model.
func relaxedUnsat(ctx *Ctx, pc []*Term, cond *Term) bool {
	res, _ := relaxedCheck(ctx, pc, cond, nil, false)
	return res == "unsat"
}

// relaxedCheck decides pc => cond in the real rounding-error model.  "unsat": proved (in that model).  "sat": the
// model's values of the given integer / boolean variables are returned as a CANDIDATE counterexample - the error
// terms of the model are chosen by the solver, not by IEEE rounding, so the candidate proves nothing until the
// native replay reproduces it.
func relaxedCheck(ctx *Ctx, pc []*Term, cond *Term, vars []*Term, tight bool) (string, map[string]uint64) {
	r := &relaxer{ctx: ctx, memo: map[*Term]string{}, vars: map[string]bool{}, tight: tight}
	neg := r.tr(ctx.Not(cond))
	if r.failed {
		return "unknown", nil
	}
	var asserts []string
	for _, p := range pc {
		save := r.failed
		r.failed = false
		s := r.tr(p)
		if !r.failed {
			asserts = append(asserts, s)
		}
		// an untranslatable assumption is dropped (sound for "unsat": fewer assumptions; a "sat" candidate is replayed)
		r.failed = save
	}
	var names []string
	for _, v := range vars {
		if v.Op == OVar && v.S.K != KFP {
			save := r.failed
			r.failed = false
			r.tr(v)
			if !r.failed {
				names = append(names, v.Name)
			}
			r.failed = save
		}
	}
	var sb strings.Builder
	sb.WriteString("(set-logic ALL)\n(set-option :produce-models true)\n")
	sb.WriteString(r.decls.String())
	sb.WriteString(r.sides.String())
	for _, a := range asserts {
		sb.WriteString("(assert " + a + ")\n")
	}
	sb.WriteString("(assert " + neg + ")\n(check-sat)\n")
	if len(names) > 0 {
		sb.WriteString("(get-value (" + strings.Join(names, " ") + "))\n")
	}
	f, err := os.CreateTemp("", "gosmt-relax-*.smt2")
	if err != nil {
		return "unknown", nil
	}
	defer os.Remove(f.Name())
	f.WriteString(sb.String())
	f.Close()
	if d := os.Getenv("GOSMT_KEEPRELAX"); d != "" {
		os.WriteFile(d, []byte(sb.String()), 0o644)
	}
	for _, cmd := range [][]string{{"z3-new", "-T:60", f.Name()}, {"cvc5", "--produce-models", "--tlimit=60000", f.Name()}} {
		out, _ := exec.Command(cmd[0], cmd[1:]...).CombinedOutput()
		o := strings.TrimSpace(string(out))
		if o == "unsat" || strings.HasPrefix(o, "unsat\n") {
			return "unsat", nil
		}
		if strings.HasPrefix(o, "sat") {
			model := map[string]uint64{}
			re := regexp.MustCompile(`\(([A-Za-z_][A-Za-z0-9_]*) (\(- (\d+)\)|(\d+)|true|false)\)`)
			for _, m := range re.FindAllStringSubmatch(o, -1) {
				switch {
				case m[2] == "true":
					model[m[1]] = 1
				case m[2] == "false":
					model[m[1]] = 0
				case m[3] != "":
					v, _ := strconv.ParseUint(m[3], 10, 64)
					model[m[1]] = -v
				default:
					v, _ := strconv.ParseUint(m[4], 10, 64)
					model[m[1]] = v
				}
			}
			if len(model) == len(names) && len(names) > 0 {
				return "sat", model
			}
			return "unknown", nil
		}
	}
	return "unknown", nil
}
