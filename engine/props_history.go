package main

// History items: an ordinary harness preceded (in the same process state) by other harness calls - a refused call,
// the same call with independent symbolic inputs, another band's constructor.  Whatever an implementation keeps
// between calls (pooled buffers, memoised results, cached cipher objects, lazily built tables) must not change the
// second answer.  Added after a round of seeded changes that all lived in such state (DESIGN.md section 12).

func pc(f string, shape ...int) PreCall { return PreCall{Harness: f, Shape: shape} }

func after(pkg, f string, shape []int, pre ...PreCall) Item {
	return Item{PkgKey: pkg, Func: f, Shape: shape, Pre: pre}
}

func addItems(id string, f func(tier string) []Item) {
	p := props[id]
	old := p.Items
	p.Items = func(tier string, seed int64) []Item { return append(old(tier, seed), f(tier)...) }
}

func reuseFrameItems(tier string) []Item {
	var it []Item
	for _, l := range pick(tier, []int{12, 13, 14, 16}, rng(12, 22)) {
		it = append(it, Item{PkgKey: "root", Func: "VerifC10_ReuseFrame", Shape: []int{l}})
	}
	return it
}

func init() {
	th := func(tier string) bool { return tier == "thorough" }
	addItems("C01", func(tier string) []Item {
		var it []Item
		for k := 0; k <= 6; k++ {
			it = append(it, after("root", "VerifC01_Data", []int{k % 4, 2, 2, 3}, pc("VerifHist_RefusedEncode", k)))
			if th(tier) {
				it = append(it, after("root", "VerifC01_Data", []int{(k + 1) % 4, 0, 0, 0}, pc("VerifHist_RefusedEncode", k)))
				it = append(it, after("root", "VerifC01_Text", []int{k % 4, 1, 2, 1}, pc("VerifHist_RefusedEncode", k)))
			}
		}
		for _, k := range []int{3, 4, 5} {
			it = append(it, after("root", "VerifC01_JoinAccept", []int{1}, pc("VerifHist_RefusedEncode", k)))
			it = append(it, after("root", "VerifC01_JoinAccept", []int{0}, pc("VerifHist_RefusedEncode", k)))
		}
		for kind := 0; kind <= 2; kind++ {
			it = append(it, after("root", "VerifC01_Rejoin", []int{kind}, pc("VerifHist_RefusedEncode", 6)))
		}
		it = append(it, after("root", "VerifC01_JoinRequest", []int{}, pc("VerifHist_RefusedEncode", 6)))
		it = append(it, after("root", "VerifC01_Data", []int{0, 2, 2, 3}, pc("VerifC01_Data", 1, 0, 0, 0)))
		it = append(it, after("root", "VerifC01_Data", []int{1, 0, 0, 0}, pc("VerifC01_Data", 0, 2, 2, 3)))
		it = append(it, after("root", "VerifC01_Text", []int{0, 1, 2, 1}, pc("VerifHist_RefusedEncode", 0)))
		return append(it, reuseFrameItems(tier)...)
	})
	addItems("C02", func(tier string) []Item {
		var it []Item
		shapes := [][]int{{2, 2, 3}, {0, 0, 0}}
		if th(tier) {
			shapes = append(shapes, []int{15, 2, 17}, []int{0, 1, 4}, []int{1, 2, 0})
		}
		for ver := 0; ver <= 1; ver++ {
			for _, s := range shapes {
				sh := append([]int{ver}, s...)
				it = append(it, after("root", "VerifC02_Uplink", sh, pc("VerifC02_Uplink", sh...)))
				it = append(it, after("root", "VerifC02_Downlink", sh, pc("VerifC02_Downlink", sh...)))
				other := append([]int{1 - ver}, s...)
				it = append(it, after("root", "VerifC02_Uplink", sh, pc("VerifC02_Uplink", other...)))
				it = append(it, after("root", "VerifC02_Downlink", sh, pc("VerifC02_Downlink", other...)))
			}
			it = append(it, after("root", "VerifC02_Uplink", []int{ver, 2, 2, 3}, pc("VerifHist_RefusedEncode", 0)))
			it = append(it, after("root", "VerifC02_Downlink", []int{ver, 2, 2, 3}, pc("VerifHist_RefusedEncode", 1)))
			it = append(it, after("root", "VerifC02_Downlink", []int{ver, 2, 2, 3}, pc("VerifC02_Uplink", ver, 2, 2, 3)))
		}
		return it
	})
	addItems("C03", func(tier string) []Item {
		var it []Item
		for _, n := range pick(tier, []int{1, 16, 17}, []int{1, 2, 15, 16, 17, 32, 33}) {
			it = append(it, after("root", "VerifC03_FRMFunc", []int{n}, pc("VerifC03_FRMFunc", n)))
		}
		for _, n := range pick(tier, []int{1, 15}, []int{1, 2, 7, 15}) {
			it = append(it, after("root", "VerifC03_FOptsFunc", []int{n}, pc("VerifC03_FOptsFunc", n)))
			it = append(it, after("root", "VerifC03_FOptsFunc", []int{n}, pc("VerifC03_FOptsFunc", 16)))
		}
		for mt := 0; mt < 4; mt++ {
			it = append(it, after("root", "VerifC03_PHYFRM", []int{mt, 2, 5}, pc("VerifC03_PHYFRM", (mt+1)%4, 2, 5)))
			it = append(it, after("root", "VerifC03_PHYFOpts", []int{mt, 2, 5}, pc("VerifC03_PHYFOpts", (mt+1)%4, 2, 5)))
			it = append(it, after("root", "VerifC03_PHYFOpts", []int{mt, 2, 5}, pc("VerifC03_PHYFRM", (mt+1)%4, 2, 5)))
		}
		return it
	})
	addItems("C04", func(tier string) []Item {
		var it []Item
		for kind := 0; kind <= 3; kind++ {
			it = append(it, after("root", "VerifC04_UpJoinMIC", []int{kind}, pc("VerifHist_RefusedEncode", 6)))
			it = append(it, after("root", "VerifC04_UpJoinMIC", []int{kind}, pc("VerifC04_UpJoinMIC", (kind+1)%4)))
			it = append(it, after("root", "VerifC04_UpJoinMIC", []int{kind}, pc("VerifC04_UpJoinMIC", kind)))
		}
		for cf := 0; cf <= 2; cf++ {
			for _, k := range []int{3, 4, 5} {
				it = append(it, after("root", "VerifC04_DownJoinMIC", []int{cf}, pc("VerifHist_RefusedEncode", k)))
			}
			it = append(it, after("root", "VerifC04_DownJoinMIC", []int{cf}, pc("VerifC04_DownJoinMIC", (cf+1)%3)))
			it = append(it, after("root", "VerifC04_JoinAcceptCrypt", []int{cf}, pc("VerifC04_JoinAcceptCrypt", (cf+1)%3)))
		}
		return it
	})
	addItems("C05", func(tier string) []Item {
		var it []Item
		for ver := 0; ver <= 1; ver++ {
			for mt := 0; mt < 4; mt++ {
				sh := []int{ver, mt, 2, 2, 3}
				it = append(it, after("root", "VerifC05_Tamper", sh, pc("VerifC05_Tamper", sh...)))
				if th(tier) {
					it = append(it, after("root", "VerifC05_Tamper", sh, pc("VerifC05_Tamper", 1-ver, mt, 2, 2, 3)))
				}
			}
		}
		return append(it, reuseFrameItems(tier)...)
	})
	addItems("C06", func(tier string) []Item {
		var it []Item
		for _, l := range pick(tier, []int{12, 13, 15, 18}, rng(12, 30)) {
			for mode := 0; mode <= 2; mode++ {
				it = append(it, Item{PkgKey: "root", Func: "VerifC06_DecodeModifyEncode", Shape: []int{l, mode}})
			}
		}
		return it
	})
	addItems("C08", func(tier string) []Item { return reuseFrameItems(tier) })
	addItems("C11", func(tier string) []Item {
		var it []Item
		for t := 0; t <= 7; t++ {
			it = append(it, after("root", "VerifC11_Prefix", []int{t}, pc("VerifC11_Prefix", t)))
		}
		for typ := 0; typ <= 3; typ++ {
			it = append(it, after("root", "VerifC11_ReprText", []int{typ, 1}, pc("VerifC11_ReprText", typ, 0)))
		}
		return it
	})
	addItems("C12", func(tier string) []Item {
		var it []Item
		for n := 0; n < 14; n++ {
			for _, f := range []string{"VerifC12_RX1DR", "VerifC12_RX1Chan"} {
				it = append(it, after("band", f, []int{n, 0, n % 2}, pc("VerifHist_AllBands")))
			}
			if th(tier) {
				for _, f := range []string{"VerifC12_PingSlot", "VerifC12_RX2", "VerifC12_NoPanic"} {
					it = append(it, after("band", f, []int{n, 1, 1 - n%2}, pc("VerifHist_AllBands")))
				}
			}
		}
		return it
	})
	addItems("C13", func(tier string) []Item {
		var it []Item
		for n := 0; n < 14; n++ {
			it = append(it, after("band", "VerifC13_Closed", []int{n, 0, n % 2}, pc("VerifHist_AllBands")))
			// same band object asked twice: a known version / revision first, then an unknown one, and the reverse
			for _, q := range [][]int{{4, 3, 6, 7}, {6, 7, 4, 3}, {2, 1, 6, 7}, {5, 0, 4, 6}} {
				for rep := 0; rep <= 1; rep++ {
					if !th(tier) && (n+rep+q[0])%2 == 1 {
						continue
					}
					it = append(it, Item{PkgKey: "band", Func: "VerifC13_MaxPayloadTwice", Shape: append([]int{n, rep, 1 - n%2}, q...)})
				}
			}
		}
		return it
	})
	addItems("C17", func(tier string) []Item {
		var it []Item
		for _, l := range []int{16, 24, 32} {
			it = append(it, after("backend", "VerifC17_Envelope", []int{l}, pc("VerifC17_Envelope", l)))
			it = append(it, after("backend", "VerifC17_UnwrapIff", []int{l}, pc("VerifC17_Envelope", l)))
		}
		it = append(it, after("backend", "VerifC17_Envelope", []int{16}, pc("VerifC17_Envelope", 32)))
		return it
	})
	addItems("C18", func(tier string) []Item {
		var it []Item
		for w := 0; w < 5; w++ {
			it = append(it, after("multicastsetup", "VerifC18_Keys", []int{w}, pc("VerifC18_Keys", (w+3)%5)))
		}
		return it
	})
	addItems("C19", func(tier string) []Item {
		var it []Item
		for _, s := range [][]int{{12, 4}, {8, 1}, {33, 2}} {
			it = append(it, after("fragmentation", "VerifC19_Encode", []int{s[0], s[1], 6}, pc("VerifC19_Encode", s[0], s[1], 2)))
			it = append(it, after("fragmentation", "VerifC19_Encode", []int{s[0], s[1], 2}, pc("VerifC19_Encode", s[0], s[1], 6)))
		}
		it = append(it, after("fragmentation", "VerifC19_Encode", []int{296, 1, 3}, pc("VerifC19_Encode", 40, 1, 3)))
		it = append(it, after("fragmentation", "VerifC19_Encode", []int{40, 1, 3}, pc("VerifC19_Encode", 296, 1, 3)))
		it = append(it, after("fragmentation", "VerifC19_Encode", []int{8, 2, 3}, pc("VerifC19_InvalidArgs", 4, 1)))
		return it
	})
	// second wave: every remaining property whose code could plausibly keep state between calls
	addItems("C06", func(tier string) []Item {
		var it []Item
		for i := 0; i < nMacSpecs; i++ {
			j := (i + 7) % nMacSpecs
			it = append(it, after("root", "VerifC06_Dec", []int{i}, pc("VerifC06_Dec", j)))
			if th(tier) {
				it = append(it, after("root", "VerifC06_Enc", []int{i}, pc("VerifC06_Enc", j)), after("root", "VerifC06_Dec", []int{i}, pc("VerifC06_Enc", i)))
			}
		}
		it = append(it, after("root", "VerifC06_CFListDec", []int{0}, pc("VerifC06_CFListDec", 0)), after("root", "VerifC06_CFListDec", []int{1}, pc("VerifC06_CFListDec", 0)))
		if th(tier) {
			it = append(it, after("root", "VerifC06_CFListDec", []int{1}, pc("VerifC06_CFListDec", 1))) // 128 x 128 paths, about a minute
		}
		return it
	})
	addItems("C07", func(tier string) []Item {
		var it []Item
		for i := 0; i < nMacSpecs; i++ {
			it = append(it, after("root", "VerifC07_RoundTrip", []int{i}, pc("VerifC07_RoundTrip", (i+11)%nMacSpecs)))
			if th(tier) {
				it = append(it, after("root", "VerifC07_RoundTrip", []int{i}, pc("VerifC07_RoundTrip", i)))
			}
		}
		it = append(it, after("root", "VerifC07_Seq", []int{0, 2, 4, -1}, pc("VerifC07_ProprietaryTwice", 2)))
		it = append(it, after("root", "VerifC07_Seq", []int{1, 18, 20, -1}, pc("VerifC07_Seq", 0, 2, 4, -1)))
		it = append(it, after("root", "VerifC07_Stream", []int{0, 2}, pc("VerifC07_Stream", 1, 2)))
		return it
	})
	addItems("C09", func(tier string) []Item {
		var it []Item
		for _, l := range pick(tier, []int{0, 1, 2}, rng(0, 3)) {
			it = append(it, after("root", "VerifC09_MAC", []int{l}, pc("VerifC09_MAC", 2)))
		}
		for _, pk := range []string{"clocksync", "multicastsetup", "fragmentation", "firmwaremanagement"} {
			it = append(it, after(pk, "VerifC09_Commands", []int{0, 3}, pc("VerifC09_Commands", 1, 2)))
			it = append(it, after(pk, "VerifC09_Commands", []int{1, 3}, pc("VerifC09_Commands", 1, 3)))
		}
		return it
	})
	addItems("C10", func(tier string) []Item {
		var it []Item
		for n := 0; n < 14; n++ {
			it = append(it, after("band", "VerifC10_BandSharing", []int{n, 1}, pc("VerifHist_AllBands")))
		}
		return it
	})
	addItems("C14", func(tier string) []Item {
		var it []Item
		// (a plan after another plan squares the 256 paths of one plan: not done)
		for _, n := range pick(tier, []int{0, 1, 4, 10}, rng(0, 13)) {
			it = append(it, after("band", "VerifC14_Plan", []int{n, 0, 0, 0, 2, 0}, pc("VerifHist_AllBands")))
		}
		return it
	})
	addItems("C15", func(tier string) []Item {
		var it []Item
		for n := 0; n < 14; n++ {
			it = append(it, after("band", "VerifC15_Sets", []int{n, 0, 0, 1, 0, 2}, pc("VerifHist_AllBands")))
			it = append(it, after("band", "VerifC15_CFList", []int{n, 0, 0, 1, 3, 0, 2}, pc("VerifC15_CFList", n, 0, 0, 1, 6, 0, 0)))
		}
		return it
	})
	addItems("C16", func(tier string) []Item {
		var it []Item
		for cf := 0; cf <= 1; cf++ {
			it = append(it, after("joinserver", "VerifC16_Join", []int{cf, 1, 1}, pc("VerifC16_Join", 1-cf, 1, 1)))
			it = append(it, after("joinserver", "VerifC16_Join", []int{cf, 0, 1}, pc("VerifC16_Rejoin", 0, 1, 1, 0)))
		}
		return it
	})
	addItems("C18", func(tier string) []Item {
		var it []Item
		pairs := map[string][][]int{
			"clocksync":          {{0, 0, 0}, {0, 1, 0}, {0, 2, 0}, {0, 3, 0}, {1, 0, 0}, {1, 1, 0}},
			"multicastsetup":     {{0, 1, 0}, {0, 2, 0}, {1, 1, 0}, {1, 4, 1}, {1, 5, 0}, {0, 4, 0}},
			"fragmentation":      {{0, 1, 0}, {0, 2, 0}, {1, 1, 0}, {1, 2, 0}},
			"firmwaremanagement": {{0, 1, 0}, {0, 4, 1}, {1, 4, 0}, {1, 5, 0}, {0, 5, 0}},
		}
		for _, pk := range []string{"clocksync", "multicastsetup", "fragmentation", "firmwaremanagement"} {
			l := pairs[pk]
			for i, t := range l {
				u := l[(i+1)%len(l)]
				it = append(it, after(pk, "VerifC18_RoundTrip", t, pc("VerifC18_RoundTrip", u...)))
			}
		}
		return it
	})
	// third wave (round 4: aliasing, nil versus empty, the other direction, documented limits)
	aliasItems := func(tier string) []Item {
		var it []Item
		for _, l := range pick(tier, []int{12, 13, 14, 16}, rng(12, 22)) {
			it = append(it, Item{PkgKey: "root", Func: "VerifC10_AliasDecode", Shape: []int{l}})
		}
		return it
	}
	keepsCaller := func(tier string) []Item {
		var it []Item
		for mt := 0; mt < 4; mt++ {
			for _, nfr := range []int{1, 16, 17, 32} {
				it = append(it, Item{PkgKey: "root", Func: "VerifC10_EncryptKeepsCaller", Shape: []int{mt, 3, nfr}})
			}
		}
		return it
	}
	addItems("C01", func(tier string) []Item {
		it := aliasItems(tier)
		for mt := 0; mt < 4; mt++ {
			for kind := 0; kind <= 2; kind++ {
				it = append(it, Item{PkgKey: "root", Func: "VerifC01_EmptyLists", Shape: []int{mt, kind}})
			}
		}
		return it
	})
	addItems("C02", func(tier string) []Item {
		var it []Item
		for ver := 0; ver <= 1; ver++ {
			for mt := 0; mt < 4; mt++ {
				it = append(it, Item{PkgKey: "root", Func: "VerifC02_DownlinkAnyMType", Shape: []int{ver, mt}})
			}
		}
		return it
	})
	addItems("C03", func(tier string) []Item {
		var it []Item
		for mt := 0; mt < 4; mt++ {
			for _, n := range []int{1, 5, 15} {
				it = append(it, Item{PkgKey: "root", Func: "VerifC03_PHYFOpts", Shape: []int{mt, 3, n}}) // FPort > 0, empty FRMPayload
			}
			for _, n := range []int{1, 16, 17} {
				it = append(it, Item{PkgKey: "root", Func: "VerifC03_PHYFRMNoPort", Shape: []int{mt, n}})
			}
		}
		return it
	})
	addItems("C04", func(tier string) []Item {
		return []Item{{PkgKey: "root", Func: "VerifC04_DecryptCopy", Shape: []int{0}}, {PkgKey: "root", Func: "VerifC04_DecryptCopy", Shape: []int{1}}}
	})
	addItems("C05", func(tier string) []Item {
		it := append(aliasItems(tier), keepsCaller(tier)...)
		// corruption of the serialised bytes: every byte position of a frame with 2 FOpts bytes, FPort and 3 payload
		// bytes (18 bytes), plus the untouched frame; thorough: a second shape
		for ver := 0; ver <= 1; ver++ {
			for mt := 0; mt < 4; mt++ {
				for pos := -1; pos < 18; pos++ {
					if tier != "thorough" && (ver+mt+pos+1)%2 == 1 && pos > 0 {
						continue
					}
					it = append(it, Item{PkgKey: "root", Func: "VerifC05_WireCorruption", Shape: []int{ver, mt, 2, 2, 3, pos}})
					if tier == "thorough" && pos < 13 {
						it = append(it, Item{PkgKey: "root", Func: "VerifC05_WireCorruption", Shape: []int{ver, mt, 0, 1, 0, pos}})
					}
				}
			}
		}
		for ver := 0; ver <= 1; ver++ {
			for mt := 0; mt < 4; mt++ {
				it = append(it, Item{PkgKey: "root", Func: "VerifC02_DownlinkAnyMType", Shape: []int{ver, mt}})
			}
		}
		return it
	})
	addItems("C07", func(tier string) []Item {
		var it []Item
		for _, s := range [][]int{{2, 0}, {1, 3}, {3, 1}} {
			it = append(it, Item{PkgKey: "root", Func: "VerifC07_ProprietaryOtherDirection", Shape: s})
		}
		for _, n := range []int{2, 3, 5} {
			it = append(it, Item{PkgKey: "root", Func: "VerifC07_ProprietaryEncodeSpare", Shape: []int{n}})
		}
		return it
	})
	addItems("C09", func(tier string) []Item {
		it := aliasItems(tier)
		for _, l := range pick(tier, []int{13, 29, 45}, []int{13, 14, 28, 29, 30, 45, 61}) {
			it = append(it, Item{PkgKey: "root", Func: "VerifC09_DecodeThenDecrypt", Shape: []int{l}})
		}
		for _, pk := range []string{"clocksync", "multicastsetup", "fragmentation", "firmwaremanagement"} {
			for up := 0; up <= 1; up++ {
				if tier != "thorough" { // thorough already has every length 0..8
					it = append(it, Item{PkgKey: pk, Func: "VerifC09_Commands", Shape: []int{up, 7}})
				}
			}
		}
		return it
	})
	addItems("C10", func(tier string) []Item {
		return []Item{{PkgKey: "root", Func: "VerifC04_DecryptCopy", Shape: []int{0}}, {PkgKey: "root", Func: "VerifC04_DecryptCopy", Shape: []int{1}},
			{PkgKey: "root", Func: "VerifC07_ProprietaryEncodeSpare", Shape: []int{3}}}
	})
	addItems("C12", func(tier string) []Item {
		var it []Item
		for n := 0; n < 14; n++ {
			for _, k := range pick(tier, []int{1, 2}, []int{1, 2, 3}) {
				it = append(it, Item{PkgKey: "band", Func: "VerifC12_RX1AfterAdd", Shape: []int{n, k}})
			}
		}
		return it
	})
	addItems("C06", func(tier string) []Item {
		// DeviceTimeAns over the full Duration domain (off the 1/256 s grid): shared with C07
		return []Item{{PkgKey: "root", Func: "VerifC07_RoundTrip", Shape: []int{11}}}
	})
	addItems("C15", func(tier string) []Item {
		// more custom channels than a CFList holds (EU868, IN865, AS923, KR920)
		var it []Item
		for _, n := range pick(tier, []int{0, 3}, []int{0, 3, 5, 10}) {
			for _, ver := range pick(tier, []int{3}, []int{2, 3, 6}) {
				it = append(it, Item{PkgKey: "band", Func: "VerifC15_CFList", Shape: []int{n, 0, 0, 6, ver, 0, 2}})
			}
		}
		return it
	})
	addItems("C16", func(tier string) []Item {
		var it []Item
		for kind := 0; kind <= 2; kind++ {
			for form := 1; form <= 2; form++ {
				it = append(it, Item{PkgKey: "joinserver", Func: "VerifC16_HandlerKEKForms", Shape: []int{kind, form}})
			}
		}
		for kind := 0; kind <= 5; kind++ {
			it = append(it, Item{PkgKey: "joinserver", Func: "VerifC16_HandlerDefaults", Shape: []int{kind}})
		}
		return it
	})
	addItems("C09", func(tier string) []Item {
		// "never hang": every registry entry point releases the lock on every path (shared with C10)
		var it []Item
		for _, l := range rng(0, 3) {
			it = append(it, Item{PkgKey: "root", Func: "VerifC10_Locks", Shape: []int{l}})
		}
		return it
	})
	addItems("C16", func(tier string) []Item {
		var it []Item
		for kind := 0; kind <= 2; kind++ {
			for _, l := range []int{16, 32} {
				it = append(it, Item{PkgKey: "joinserver", Func: "VerifC16_HandlerStore", Shape: []int{kind, l}})
			}
		}
		return it
	})
	addItems("C18", func(tier string) []Item {
		var it []Item
		for _, pk := range []string{"clocksync", "multicastsetup", "fragmentation", "firmwaremanagement"} {
			for up := 0; up <= 1; up++ {
				for idx := 0; idx <= 5; idx++ {
					for _, l := range []int{1, 2, 5, 10} {
						it = append(it, Item{PkgKey: pk, Func: "VerifC10_AliasPayload", Shape: []int{up, idx, l}})
					}
				}
			}
		}
		return it
	})
	addItems("C19", func(tier string) []Item {
		// redundancy up to 100 (the matrix line number enters the generator seed)
		return []Item{{PkgKey: "fragmentation", Func: "VerifC19_Encode", Shape: []int{4, 1, 100}}, {PkgKey: "fragmentation", Func: "VerifC19_Encode", Shape: []int{12, 1, 100}},
			{PkgKey: "fragmentation", Func: "VerifC19_Encode", Shape: []int{7, 2, 70}}}
	})
	addItems("C20", func(tier string) []Item {
		var it []Item
		fs := []string{"VerifC20_GPSRoundTrip", "VerifC20_GPSOffset", "VerifC20_GPSMonotone", "VerifC20_GPSDuration"}
		for i, f := range fs {
			it = append(it, after("gps", f, []int{}, pc("VerifC20_GPSOffset")))
			if th(tier) {
				it = append(it, after("gps", f, []int{}, pc(fs[(i+1)%4])), after("gps", f, []int{}, pc("VerifC20_GPSDuration")))
			}
		}
		return it
	})
}

// round 6: command streams against the table model (C06), device sets beyond the plan (C14), decoded frames that
// outlive their receive buffer (C08)
func init() {
	addItems("C06", func(tier string) []Item {
		var it []Item
		for _, dir := range [][]int{macDown, macUp} {
			for i, a := range dir {
				if tier == "thorough" {
					for _, b := range dir {
						it = append(it, Item{PkgKey: "root", Func: "VerifC06_DecStream", Shape: []int{a, b}})
					}
					continue
				}
				it = append(it, Item{PkgKey: "root", Func: "VerifC06_DecStream", Shape: []int{a, dir[(i+1)%len(dir)]}})
				it = append(it, Item{PkgKey: "root", Func: "VerifC06_DecStream", Shape: []int{a, a}})
			}
		}
		return it
	})
	addItems("C08", func(tier string) []Item {
		var it []Item
		for _, l := range pick(tier, []int{12, 13, 14, 16, 20}, rng(12, 28)) {
			it = append(it, Item{PkgKey: "root", Func: "VerifC10_AliasDecode", Shape: []int{l}})
		}
		return it
	})
	addItems("C14", func(tier string) []Item {
		var it []Item
		for n := 0; n < 14; n++ {
			if bandNStd[n] > 8 {
				// 72 / 96-channel plans: last four channels and two stale indices symbolic (about 30 s per item)
				if tier == "thorough" {
					it = append(it, Item{PkgKey: "band", Func: "VerifC14_PlanBeyond", Shape: []int{n, 0, 2, 0}})
				}
				continue
			}
			for pos := 0; pos <= 2; pos++ {
				it = append(it, Item{PkgKey: "band", Func: "VerifC14_PlanBeyond", Shape: []int{n, 0, 2, pos}})
				if tier == "thorough" {
					it = append(it, Item{PkgKey: "band", Func: "VerifC14_PlanBeyond", Shape: []int{n, 2, 3, pos}})
				}
			}
			it = append(it, Item{PkgKey: "band", Func: "VerifC14_PlanBeyond", Shape: []int{n, 1, 14, 0}})
		}
		return it
	})
}

// round 6, second batch: a decoded application-layer value the caller still holds is not rewritten by the next decode
func init() {
	keeps := func(tier string) []Item {
		var it []Item
		for _, s := range [][]int{{6, 6}, {11, 6}, {11, 11}, {16, 11}, {6, 1}, {21, 21}} {
			it = append(it, Item{PkgKey: "multicastsetup", Func: "VerifC10_KeepsEarlier", Shape: s})
		}
		for _, s := range [][]int{{3, 3}, {6, 4}, {6, 6}, {10, 10}, {4, 2}} {
			it = append(it, Item{PkgKey: "fragmentation", Func: "VerifC10_KeepsEarlier", Shape: s})
		}
		return it
	}
	addItems("C10", keeps)
	addItems("C18", keeps)
}
