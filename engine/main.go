package main

import (
	"encoding/json"
	"fmt"
	"os"
	"runtime/pprof"
	"strconv"
	"strings"
)

var exitFn = os.Exit

func usage() {
	fmt.Fprintln(os.Stderr, "usage: gosmt check <ID> [quick|thorough] [-v] | gosmt run <pkgkey> <Func> <a,b,c> [-desc] | gosmt selftest | gosmt list")
	os.Exit(2)
}

func defaultOpts(tier string) RunOpts {
	o := RunOpts{Tier: tier, TimeoutMs: 20000, MaxPaths: 200000, MaxSteps: 4000000, MaxVisits: 700, Solver: solverFromEnv()}
	if tier == "thorough" {
		o.TimeoutMs = 120000
	}
	if s := os.Getenv("VERIF_SEED"); s != "" {
		o.Seed, _ = strconv.ParseInt(s, 10, 64)
	}
	if v := os.Getenv("VERIF_MAXVISITS"); v != "" { // ad-hoc runs of harnesses whose property raises the unwinding bound
		n, _ := strconv.Atoi(v)
		o.MaxVisits = int32(n)
	}
	if w := os.Getenv("VERIF_WORKERS"); w != "" {
		o.Workers, _ = strconv.Atoi(w)
	}
	return o
}

func main() {
	if len(os.Args) < 2 {
		usage()
	}
	if d := os.Getenv("VERIF_REPO"); d != "" {
		repoDir = d
	}
	if d := os.Getenv("VERIF_DIR"); d != "" {
		verifDir = d
	}
	if pf := os.Getenv("GOSMT_PROF"); pf != "" {
		f, _ := os.Create(pf)
		pprof.StartCPUProfile(f)
		defer pprof.StopCPUProfile()
		exitFn = func(c int) { pprof.StopCPUProfile(); os.Exit(c) }
	}
	switch os.Args[1] {
	case "list":
		for id := range props {
			fmt.Println(id)
		}
	case "check":
		if len(os.Args) < 3 {
			usage()
		}
		spec, ok := props[os.Args[2]]
		if !ok {
			fmt.Fprintf(os.Stderr, "unknown property %s\n", os.Args[2])
			os.Exit(2)
		}
		tier := os.Getenv("VERIF_TIER")
		if tier == "" {
			tier = "quick"
		}
		opts := defaultOpts(tier)
		for _, a := range os.Args[3:] {
			switch a {
			case "quick", "thorough":
				opts = defaultOpts(a)
			}
		}
		for _, a := range os.Args[3:] {
			switch a {
			case "-v":
				opts.Verbose = true
			case "-noreplay":
				opts.NoReplay = true
			}
		}
		exitFn(RunCheck(spec, opts))
	case "run":
		if len(os.Args) < 5 {
			usage()
		}
		key, fn := os.Args[2], os.Args[3]
		var shape []int
		if os.Args[4] != "-" && os.Args[4] != "" {
			for _, s := range strings.Split(os.Args[4], ",") {
				v, _ := strconv.Atoi(s)
				shape = append(shape, v)
			}
		}
		desc := false
		var pre []PreCall
		for _, a := range os.Args[5:] {
			if a == "-desc" {
				desc = true
			}
			// -pre=VerifXxx:1,2,3 (repeatable): harnesses run before the main one in the same state
			if strings.HasPrefix(a, "-pre=") {
				parts := strings.SplitN(a[5:], ":", 2)
				pc := PreCall{Harness: parts[0], Shape: []int{}}
				if len(parts) == 2 && parts[1] != "" {
					for _, x := range strings.Split(parts[1], ",") {
						v, err := strconv.Atoi(x)
						if err != nil {
							usage()
						}
						pc.Shape = append(pc.Shape, v)
					}
				}
				pre = append(pre, pc)
			}
		}
		spec := &PropSpec{ID: "ADHOC", Pkgs: []string{key}, Items: func(string, int64) []Item {
			return []Item{{PkgKey: key, Func: fn, Shape: shape, MapDesc: desc, Pre: pre}}
		}, Bounds: func(string) map[string]string { return nil }}
		opts := defaultOpts("quick")
		opts.Verbose = true
		exitFn(RunCheck(spec, opts))
	case "replay":
		// gosmt replay <ID> <file>: run a recorded counterexample against the natively compiled library
		if len(os.Args) < 4 {
			usage()
		}
		os.Exit(replayFile(os.Args[2], os.Args[3]))
	case "selftest":
		os.Exit(selftest())
	default:
		usage()
	}
}

func selftest() int {
	spec, ok := props["SELFTEST"]
	if !ok {
		fmt.Println("selftest: no SELFTEST spec registered")
		return 0
	}
	opts := defaultOpts("quick")
	return RunCheck(spec, opts)
}

func solverFromEnv() SolverKind {
	switch os.Getenv("GOSMT_SOLVER") {
	case "z3":
		return SolverZ3
	case "cvc5":
		return SolverCVC5
	case "z3new":
		return SolverZ3New
	}
	return SolverZ3New
}


func replayFile(id, path string) int {
	b, err := os.ReadFile(path)
	if err != nil {
		fmt.Println("cannot read replay file:", err)
		return 3
	}
	var f Finding
	if err := json.Unmarshal(b, &f); err != nil {
		fmt.Println("cannot parse replay file:", err)
		return 3
	}
	key := keyForPkgPath(f.Pkg)
	if key == "" {
		fmt.Println("unknown package in replay file:", f.Pkg)
		return 3
	}
	eng, err := LoadEngine([]string{key})
	if err != nil {
		fmt.Println("load:", err)
		return 3
	}
	outs, err := nativeReplay(eng, []Finding{f})
	if err != nil {
		fmt.Println("replay:", err)
		return 3
	}
	o := outs[0]
	fmt.Printf("replay of %s%v (%s %q): native result=%s label=%q reached=%v known=%v\n", f.Harness, f.Shape, f.Kind, f.Label, o.Result, o.Label, o.Reached, o.Known)
	if o.Result == "fail" || o.Result == "panic" {
		fmt.Printf("VIOLATION property=%s replay=%s\n", id, path)
		return 1
	}
	return 0
}
