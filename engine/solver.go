package main

// Solver layer: one long-lived solver process per worker, terms introduced once as
// define-fun abbreviations at the base level, queries as push / assert / check-sat / pop.

import (
	"bufio"
	"fmt"
	"io"
	"os"
	"os/exec"
	"strconv"
	"strings"
	"time"
)

type SolverKind int

const (
	SolverZ3 SolverKind = iota
	SolverCVC5
	SolverZ3New
)

func (k SolverKind) String() string {
	switch k {
	case SolverZ3:
		return "z3-4.8.12"
	case SolverCVC5:
		return "cvc5-1.0"
	default:
		return "z3-new-5.1"
	}
}

type QueryStats struct {
	Sat, Unsat, Unknown int
	Fallback            int
	Errors              int
	TimeBy              map[string]float64
}

func (q *QueryStats) add(o *QueryStats) {
	q.Sat += o.Sat
	q.Unsat += o.Unsat
	q.Unknown += o.Unknown
	q.Fallback += o.Fallback
	q.Errors += o.Errors
	if q.TimeBy == nil {
		q.TimeBy = map[string]float64{}
	}
	for k, v := range o.TimeBy {
		q.TimeBy[k] += v
	}
}

type Solver struct {
	kind      SolverKind
	timeoutMs int
	softTimeoutMs int // if > 0: limit for the next queries (z3 only)
	cmd       *exec.Cmd
	in        io.WriteCloser
	out       *bufio.Reader
	defined   map[int]bool
	declared  map[string]bool
	axiomsN   int
	log       strings.Builder // declarations and definitions (for stand-alone dumps)
	Stats     QueryStats
	lastDump  string
	skipFallback bool
	stack     []*Term // assertions currently on the solver's stack, one push level each
	pending   strings.Builder
}

func NewSolver(kind SolverKind, timeoutMs int) (*Solver, error) {
	s := &Solver{kind: kind, timeoutMs: timeoutMs}
	s.Stats.TimeBy = map[string]float64{}
	if err := s.start(); err != nil {
		return nil, err
	}
	return s, nil
}

func (s *Solver) start() error {
	switch s.kind {
	case SolverZ3:
		s.cmd = exec.Command("z3", "-in", fmt.Sprintf("-t:%d", s.timeoutMs))
	case SolverZ3New:
		s.cmd = exec.Command("z3-new", "-in", fmt.Sprintf("-t:%d", s.timeoutMs))
	case SolverCVC5:
		s.cmd = exec.Command("cvc5", "--incremental", "--produce-models", "--lang=smt2", fmt.Sprintf("--tlimit-per=%d", s.timeoutMs))
	}
	var err error
	s.in, err = s.cmd.StdinPipe()
	if err != nil {
		return err
	}
	op, err := s.cmd.StdoutPipe()
	if err != nil {
		return err
	}
	s.cmd.Stderr = nil
	s.out = bufio.NewReaderSize(op, 1<<20)
	if err := s.cmd.Start(); err != nil {
		return err
	}
	s.defined = map[int]bool{}
	s.declared = map[string]bool{}
	s.axiomsN = 0
	s.log.Reset()
	s.pending.Reset()
	s.stack = nil
	s.emit("(set-option :global-declarations true)")
	if s.kind == SolverCVC5 {
		s.emit("(set-logic ALL)")
	}
	return nil
}

func (s *Solver) Close() {
	if s.cmd != nil {
		s.in.Close()
		s.cmd.Process.Kill()
		s.cmd.Wait()
		s.cmd = nil
	}
}

// Reset forgets all definitions (new Ctx).
func (s *Solver) Reset() {
	s.Close()
	if err := s.start(); err != nil {
		panic(err)
	}
}

func (s *Solver) emit(line string) {
	s.pending.WriteString(line)
	s.pending.WriteByte('\n')
	s.log.WriteString(line)
	s.log.WriteByte('\n')
}

func (s *Solver) flush() {
	if s.pending.Len() > 0 {
		io.WriteString(s.in, s.pending.String())
		s.pending.Reset()
	}
}

// define makes sure t and all its sub-terms are known to the solver.
func (s *Solver) define(ctx *Ctx, t *Term) {
	switch t.Op {
	case OConst:
		return
	case OVar:
		if !s.declared[t.Name] {
			s.declared[t.Name] = true
			s.emit(fmt.Sprintf("(declare-const %s %s)", t.Name, t.S))
		}
		return
	}
	if s.defined[t.ID] {
		return
	}
	// iterative post-order to avoid deep recursion
	type fr struct {
		t *Term
		i int
	}
	stack := []fr{{t, 0}}
	for len(stack) > 0 {
		f := &stack[len(stack)-1]
		if f.i < len(f.t.Args) {
			a := f.t.Args[f.i]
			f.i++
			switch a.Op {
			case OConst:
			case OVar:
				if !s.declared[a.Name] {
					s.declared[a.Name] = true
					s.emit(fmt.Sprintf("(declare-const %s %s)", a.Name, a.S))
				}
			default:
				if !s.defined[a.ID] {
					stack = append(stack, fr{a, 0})
				}
			}
			continue
		}
		cur := f.t
		stack = stack[:len(stack)-1]
		if s.defined[cur.ID] {
			continue
		}
		if cur.Op == OApp && !s.declared["uf:"+cur.Name] {
			s.declared["uf:"+cur.Name] = true
			d := ctx.UFs[cur.Name]
			var as []string
			for _, a := range d.Args {
				as = append(as, a.String())
			}
			s.emit(fmt.Sprintf("(declare-fun %s (%s) %s)", d.Name, strings.Join(as, " "), d.Ret))
		}
		s.defined[cur.ID] = true
		s.emit(fmt.Sprintf("(define-fun t%d () %s %s)", cur.ID, cur.S, body(cur)))
	}
}

func (s *Solver) syncAxioms(ctx *Ctx) {
	for s.axiomsN < len(ctx.Axioms) {
		a := ctx.Axioms[s.axiomsN]
		s.axiomsN++
		s.define(ctx, a)
		s.emit(fmt.Sprintf("(assert %s)", ref(a)))
	}
}

func (s *Solver) readLine() (string, error) {
	l, err := s.out.ReadString('\n')
	return strings.TrimSpace(l), err
}

// readSexp reads a balanced s-expression (possibly multi-line).
func (s *Solver) readSexp() (string, error) {
	var sb strings.Builder
	depth := 0
	started := false
	for {
		l, err := s.out.ReadString('\n')
		if err != nil {
			return sb.String(), err
		}
		sb.WriteString(l)
		for _, ch := range l {
			if ch == '(' {
				depth++
				started = true
			} else if ch == ')' {
				depth--
			}
		}
		if started && depth <= 0 {
			return sb.String(), nil
		}
		if !started && strings.TrimSpace(l) != "" {
			return sb.String(), nil
		}
	}
}

// Check decides satisfiability of the conjunction of asserts (plus axioms).
// Returns "sat", "unsat" or "unknown"; with wantModel and sat, values for all declared variables.
func (s *Solver) Check(ctx *Ctx, asserts []*Term, wantModel bool) (string, map[string]uint64) {
	r, m, _ := s.CheckEval(ctx, asserts, wantModel, nil)
	return r, m
}

// CheckEval is Check plus evaluation of the given terms in the model (when sat).
// The solver's assertion stack is kept between calls: only the suffix that differs from the
// previous query is popped / pushed (the path condition prefix stays asserted).
func (s *Solver) CheckEval(ctx *Ctx, asserts []*Term, wantModel bool, evals []*Term) (string, map[string]uint64, []uint64) {
	t0 := time.Now()
	defer func() {
		s.Stats.TimeBy[s.kind.String()] += time.Since(t0).Seconds()
		if traceQueries {
			fmt.Fprintf(os.Stderr, "T %.1fms\n", float64(time.Since(t0).Microseconds())/1000)
		}
	}()
	var as []*Term
	for _, a := range asserts {
		if a.IsFalse() {
			s.Stats.Unsat++
			return "unsat", nil, nil
		}
		if !a.IsTrue() {
			as = append(as, a)
		}
	}
	for _, a := range as {
		s.define(ctx, a)
	}
	for _, e := range evals {
		s.define(ctx, e)
	}
	lcp := 0
	for lcp < len(as) && lcp < len(s.stack) && as[lcp] == s.stack[lcp] {
		lcp++
	}
	s.popTo(lcp)
	for _, a := range as[lcp:] {
		fmt.Fprintf(&s.pending, "(push 1)\n(assert %s)\n", ref(a))
		s.stack = append(s.stack, a)
	}
	if s.softTimeoutMs > 0 && s.kind != SolverCVC5 {
		// a shorter limit for this query only (feasibility checks over floating point: unknown means "keep the branch")
		fmt.Fprintf(&s.pending, "(set-option :timeout %d)\n(check-sat)\n(set-option :timeout %d)\n", s.softTimeoutMs, s.timeoutMs)
	} else {
		s.pending.WriteString("(check-sat)\n")
	}
	plen := s.pending.Len()
	tq := time.Now()
	io.WriteString(s.in, s.pending.String())
	s.pending.Reset()
	res, err := s.readLine()
	if traceQueries {
		fmt.Fprintf(os.Stderr, "Q %s %.1fms sent=%dB stack=%d new=%d\n", res, float64(time.Since(tq).Microseconds())/1000, plen, len(s.stack), len(as)-lcp)
	}
	for err == nil && (res == "" || strings.HasPrefix(res, ";")) {
		res, err = s.readLine()
	}
	if err != nil || strings.HasPrefix(res, "(error") || (res != "sat" && res != "unsat" && res != "unknown" && !strings.HasPrefix(res, "timeout")) {
		s.Stats.Errors++
		fmt.Fprintf(os.Stderr, "solver error: %q %v\n", res, err)
		txt := s.Dump(ctx, as, wantModel, evals)
		s.restartAfterError(ctx)
		return s.fallbackTxt(ctx, txt, wantModel, evals)
	}
	if d := os.Getenv("GOSMT_DUMPEVAL"); d != "" && len(evals) > 0 && res == "sat" {
		os.WriteFile(d, []byte(s.Dump(ctx, as, false, evals)), 0o644)
	}
	switch res {
	case "sat":
		s.Stats.Sat++
		var vals []uint64
		if len(evals) > 0 {
			var names []string
			for _, e := range evals {
				names = append(names, ref(e))
			}
			io.WriteString(s.in, "(get-value ("+strings.Join(names, " ")+"))\n")
			txt, _ := s.readSexp()
			m := map[string]uint64{}
			parseModel(txt, m)
			for i, e := range evals {
				if e.IsConst() {
					vals = append(vals, e.Val)
					continue
				}
				v, ok := m[names[i]]
				if !ok {
					return "unknown", nil, nil
				}
				vals = append(vals, v)
			}
		}
		var model map[string]uint64
		if wantModel {
			model = s.getModel(ctx)
		}
		return res, model, vals
	case "unsat":
		s.Stats.Unsat++
		return res, nil, nil
	}
	return s.fallbackTxt(ctx, s.Dump(ctx, as, wantModel, evals), wantModel, evals)
}

func (s *Solver) popTo(n int) {
	if d := len(s.stack) - n; d > 0 {
		fmt.Fprintf(&s.pending, "(pop %d)\n", d)
		s.stack = s.stack[:n]
	}
}

func (s *Solver) restartAfterError(ctx *Ctx) {
	s.Close()
	if err := s.start(); err != nil {
		panic(err)
	}
}

func (s *Solver) getModel(ctx *Ctx) map[string]uint64 {
	if traceQueries {
		tq := time.Now()
		defer func() { fmt.Fprintf(os.Stderr, "M %.1fms\n", float64(time.Since(tq).Microseconds())/1000) }()
	}
	model := map[string]uint64{}
	var names []string
	for _, v := range ctx.Vars {
		if s.declared[v.Name] {
			names = append(names, v.Name)
		}
	}
	if len(names) == 0 {
		return model
	}
	// chunk to keep lines reasonable
	for i := 0; i < len(names); i += 200 {
		j := i + 200
		if j > len(names) {
			j = len(names)
		}
		io.WriteString(s.in, "(get-value ("+strings.Join(names[i:j], " ")+"))\n")
		txt, err := s.readSexp()
		if err != nil {
			break
		}
		parseModel(txt, model)
	}
	return model
}

// parseModel parses ((name value) ...) with BV (#x.., #b.., (_ bvN w)) and Bool values.
func parseModel(txt string, model map[string]uint64) {
	toks := tokenize(txt)
	// find pairs: "(" name value ")"
	for i := 0; i+2 < len(toks); i++ {
		if toks[i] != "(" {
			continue
		}
		name := toks[i+1]
		if name == "(" || name == ")" {
			continue
		}
		v := toks[i+2]
		switch {
		case v == "true":
			model[name] = 1
		case v == "false":
			model[name] = 0
		case strings.HasPrefix(v, "#x"):
			if len(v) <= 18 {
				u, _ := strconv.ParseUint(v[2:], 16, 64)
				model[name] = u
			}
		case strings.HasPrefix(v, "#b"):
			if len(v) <= 66 {
				u, _ := strconv.ParseUint(v[2:], 2, 64)
				model[name] = u
			}
		case v == "(" && i+4 < len(toks) && toks[i+3] == "_" && strings.HasPrefix(toks[i+4], "bv"):
			u, _ := strconv.ParseUint(toks[i+4][2:], 10, 64)
			model[name] = u
		}
	}
}

func tokenize(s string) []string {
	var toks []string
	cur := strings.Builder{}
	fl := func() {
		if cur.Len() > 0 {
			toks = append(toks, cur.String())
			cur.Reset()
		}
	}
	for _, ch := range s {
		switch ch {
		case '(', ')':
			fl()
			toks = append(toks, string(ch))
		case ' ', '\n', '\t', '\r':
			fl()
		default:
			cur.WriteRune(ch)
		}
	}
	fl()
	return toks
}

// Dump writes a stand-alone SMT-LIB file for the given assertion set.
func (s *Solver) Dump(ctx *Ctx, asserts []*Term, withModel bool, evals []*Term) string {
	var sb strings.Builder
	if s.kind != SolverCVC5 {
		sb.WriteString("(set-logic ALL)\n")
	}
	if withModel {
		sb.WriteString("(set-option :produce-models true)\n")
	}
	sb.WriteString(s.log.String())
	for _, a := range asserts {
		if !a.IsTrue() {
			fmt.Fprintf(&sb, "(assert %s)\n", ref(a))
		}
	}
	sb.WriteString("(check-sat)\n")
	if withModel {
		var names []string
		for _, v := range ctx.Vars {
			if s.declared[v.Name] {
				names = append(names, v.Name)
			}
		}
		if len(names) > 0 {
			sb.WriteString("(get-value (" + strings.Join(names, " ") + "))\n")
		}
	}
	if len(evals) > 0 {
		var names []string
		for _, e := range evals {
			names = append(names, ref(e))
		}
		sb.WriteString("(get-value (" + strings.Join(names, " ") + "))\n")
	}
	return sb.String()
}

var fallbackTimeoutS = 60
var disableFallback = false
var traceQueries = os.Getenv("GOSMT_TRACE") != ""

// fallbackTxt runs the other solvers one-shot on a stand-alone dump.
func (s *Solver) fallbackTxt(ctx *Ctx, txt string, wantModel bool, evals []*Term) (string, map[string]uint64, []uint64) {
	if disableFallback || s.skipFallback {
		s.Stats.Unknown++
		return "unknown", nil, nil
	}
	s.Stats.Fallback++
	f, err := os.CreateTemp("", "gosmt-q-*.smt2")
	if err != nil {
		s.Stats.Unknown++
		return "unknown", nil, nil
	}
	defer os.Remove(f.Name())
	f.WriteString(txt)
	f.Close()
	if d := os.Getenv("GOSMT_KEEPQ"); d != "" {
		os.WriteFile(d, []byte(txt), 0o644)
	}
	type alt struct {
		name string
		args []string
	}
	var alts []alt
	tl := strconv.Itoa(fallbackTimeoutS * 1000)
	if s.kind != SolverCVC5 {
		alts = append(alts, alt{"cvc5-1.0(bv-as-int)", []string{"cvc5", "--produce-models", "--solve-bv-as-int=sum", "--tlimit=" + tl, f.Name()}})
		alts = append(alts, alt{"cvc5-1.0", []string{"cvc5", "--produce-models", "--tlimit=" + tl, f.Name()}})
	}
	if s.kind != SolverZ3New {
		alts = append(alts, alt{"z3-new-5.1", []string{"z3-new", "-T:" + strconv.Itoa(fallbackTimeoutS), f.Name()}})
	}
	alts = append(alts, alt{"z3-4.8.12(one-shot)", []string{"z3", "-T:" + strconv.Itoa(fallbackTimeoutS), f.Name()}})
	for _, a := range alts {
		t0 := time.Now()
		out, _ := exec.Command(a.args[0], a.args[1:]...).CombinedOutput()
		s.Stats.TimeBy[a.name] += time.Since(t0).Seconds()
		o := string(out)
		first := strings.TrimSpace(strings.SplitN(o, "\n", 2)[0])
		// an error before the verdict (e.g. an unsupported construct) makes the answer unusable; the
		// "(error" printed by get-value after an unsat verdict is harmless
		if strings.HasPrefix(first, "(error") || (first != "unsat" && strings.Contains(o, "(error")) {
			continue
		}
		switch first {
		case "unsat":
			s.Stats.Unsat++
			return "unsat", nil, nil
		case "sat":
			s.Stats.Sat++
			model := map[string]uint64{}
			idx := strings.Index(o, "\n")
			parseModel(o[idx+1:], model)
			var vals []uint64
			for _, e := range evals {
				if e.IsConst() {
					vals = append(vals, e.Val)
					continue
				}
				v, ok := model[ref(e)]
				if !ok {
					return "unknown", nil, nil
				}
				vals = append(vals, v)
			}
			return "sat", model, vals
		}
	}
	s.Stats.Unknown++
	return "unknown", nil, nil
}

