package main

import (
	"encoding/json"
	"fmt"
	"os"
	"path/filepath"
	"runtime"
	"sort"
	"strings"
	"sync"
	"time"
)

type Item struct {
	PkgKey  string
	Func    string
	Shape   []int
	MapDesc bool
	Solver  int // 0: default of the run, otherwise SolverKind+1
	Pre     []PreCall // harnesses run before Func in the same process state (history items)
}

func (it Item) label() string {
	s := fmt.Sprintf("%s%v", it.Func, it.Shape)
	for i := len(it.Pre) - 1; i >= 0; i-- {
		s += fmt.Sprintf(" after %s%v", it.Pre[i].Harness, it.Pre[i].Shape)
	}
	return s
}

type RunOpts struct {
	Tier       string
	Seed       int64
	Workers    int
	TimeoutMs  int
	MaxPaths   int
	MaxSteps   int
	MaxVisits  int32
	Solver     SolverKind
	Verbose    bool
	NoReplay   bool
	MaxWitness int
	UFGeneric  bool
}

type KnownFinding struct {
	Property string `json:"property"`
	ID       string `json:"id"`
	Status   string `json:"status"`
	Where    string `json:"where,omitempty"`
	Input    string `json:"input,omitempty"`
	Commit   string `json:"commit,omitempty"`
	Why      string `json:"why_not_fixed,omitempty"`
}

func loadKnown() ([]KnownFinding, map[string]bool) {
	var kf []KnownFinding
	b, err := os.ReadFile(filepath.Join(verifDir, "known_findings.json"))
	if err == nil {
		json.Unmarshal(b, &kf)
	}
	m := map[string]bool{}
	for _, k := range kf {
		if k.Status == "known" {
			m[k.ID] = true
		}
	}
	return kf, m
}

// runItems executes all work items on a pool of workers.
func runItems(eng *Engine, items []Item, opts RunOpts, known map[string]bool) []*ItemResult {
	results := make([]*ItemResult, len(items))
	idx := make(chan int, len(items))
	for i := range items {
		idx <- i
	}
	close(idx)
	nw := opts.Workers
	if nw <= 0 {
		nw = runtime.NumCPU()
		if nw > 16 {
			nw = 16
		}
	}
	if nw > len(items) {
		nw = len(items)
	}
	var wg sync.WaitGroup
	var mu sync.Mutex
	done := 0
	for w := 0; w < nw; w++ {
		wg.Add(1)
		go func() {
			defer wg.Done()
			sols := map[SolverKind]*Solver{}
			defer func() {
				for _, s := range sols {
					s.Close()
				}
			}()
			for i := range idx {
				it := items[i]
				t0 := time.Now()
				kind := opts.Solver
				if it.Solver > 0 {
					kind = SolverKind(it.Solver - 1)
				}
				sol := sols[kind]
				if sol == nil {
					var err error
					sol, err = NewSolver(kind, opts.TimeoutMs)
					if err != nil {
						panic(err)
					}
					sols[kind] = sol
				}
				sol.Reset()
				sol.Stats = QueryStats{TimeBy: map[string]float64{}}
				ex := &Exec{eng: eng, ctx: NewCtx(), sol: sol, cfg: ExecCfg{MaxPaths: opts.MaxPaths, MaxSteps: opts.MaxSteps, MaxVisits: opts.MaxVisits, MapDesc: it.MapDesc, Known: known, MaxConc: 1024, UFGeneric: opts.UFGeneric}}
				h := eng.pkgs[it.PkgKey].Func(it.Func)
				var r *ItemResult
				if h == nil {
					r = &ItemResult{Harness: it.Func, Shape: it.Shape, Err: "harness function not found: " + it.Func}
				} else {
					r = ex.RunItem(h, it.Shape, it.Pre)
				}
				r.Stats = sol.Stats
				r.WallS = time.Since(t0).Seconds()
				results[i] = r
				mu.Lock()
				done++
				if opts.Verbose {
					fmt.Fprintf(os.Stderr, "[%d/%d] %s paths=%d obl=%d/%d viol=%d known=%d inconc=%d err=%q %.2fs\n", done, len(items), it.label(), r.Paths, r.Discharged, r.Obligations, len(r.Violations), len(r.KnownHits), len(r.Inconclusive), r.Err, r.WallS)
				}
				mu.Unlock()
			}
		}()
	}
	wg.Wait()
	return results
}

type Evidence struct {
	PropertyID  string                 `json:"property_id"`
	Tier        string                 `json:"tier"`
	Seed        int64                  `json:"seed"`
	Level       string                 `json:"level"`
	Coverage    map[string]interface{} `json:"coverage"`
	Assumptions []string               `json:"assumptions"`
	WallS       float64                `json:"wall_s"`
	Violations  int                    `json:"violations"`
}

type CheckOutcome struct {
	Violations   []Finding
	Known        []Finding
	Inconclusive []string
	Exit         int
}

// RunCheck runs one property check end to end.
func RunCheck(spec *PropSpec, opts RunOpts) int {
	t0 := time.Now()
	kfs, known := loadKnown()
	eng, err := LoadEngine(spec.Pkgs)
	if err != nil {
		fmt.Printf("INCONCLUSIVE property=%s reason=load: %v\n", spec.ID, err)
		writeEvidence(spec, opts, nil, nil, nil, []string{"load: " + err.Error()}, 0, time.Since(t0).Seconds(), 0)
		return 3
	}
	items := spec.Items(opts.Tier, opts.Seed)
	if os.Getenv("GOSMT_SOLVER") == "" && spec.Solver != SolverZ3 {
		opts.Solver = spec.Solver
	}
	if spec.MaxVisits > 0 {
		opts.MaxVisits = spec.MaxVisits
	}
	if spec.MaxPaths > 0 {
		opts.MaxPaths = spec.MaxPaths
	}
	if spec.MaxSteps > 0 {
		opts.MaxSteps = spec.MaxSteps
	}
	if spec.TimeoutMs > 0 && opts.TimeoutMs < spec.TimeoutMs {
		opts.TimeoutMs = spec.TimeoutMs
	}
	results := runItems(eng, items, opts, known)

	var inconc []string
	var viols, knownHits, witnesses []Finding
	for i, r := range results {
		if r.Err != "" {
			inconc = append(inconc, fmt.Sprintf("%s: engine error: %s", items[i].label(), r.Err))
		}
		for _, s := range r.Inconclusive {
			inconc = append(inconc, fmt.Sprintf("%s: %s", items[i].label(), s))
		}
		viols = append(viols, r.Violations...)
		knownHits = append(knownHits, r.KnownHits...)
		if r.Witness != nil {
			witnesses = append(witnesses, *r.Witness)
		}
		if r.Err == "" && len(r.Reached) == 0 && len(r.Violations) == 0 && len(r.KnownHits) == 0 {
			inconc = append(inconc, fmt.Sprintf("%s: VACUOUS: no path reached a verifReach site", items[i].label()))
		}
	}
	if vf := os.Getenv("GOSMT_VIOLOUT"); vf != "" {
		f, _ := os.Create(vf)
		for _, v := range viols {
			b, _ := json.Marshal(v)
			f.Write(append(b, '\n'))
		}
		f.Close()
	}
	// native replay: violations (bounded), known hits (one per id), a sample of witnesses
	maxV := 12
	if len(viols) > maxV {
		// keep distinct labels first
		seen := map[string]bool{}
		var pick []Finding
		for _, v := range viols {
			k := v.Harness + "|" + v.Label
			if !seen[k] {
				seen[k] = true
				pick = append(pick, v)
			}
		}
		if len(pick) > maxV {
			pick = pick[:maxV]
		}
		viols = pick
	}
	knownByID := map[string][]Finding{}
	for _, k := range knownHits {
		if len(knownByID[k.KnownID]) < 2 {
			knownByID[k.KnownID] = append(knownByID[k.KnownID], k)
		}
	}
	var knownPick []Finding
	var knownIDs []string
	for id := range knownByID {
		knownIDs = append(knownIDs, id)
	}
	sort.Strings(knownIDs)
	for _, id := range knownIDs {
		knownPick = append(knownPick, knownByID[id]...)
	}
	nw := opts.MaxWitness
	if nw == 0 {
		nw = 24
	}
	if len(witnesses) > nw {
		// deterministic spread
		step := float64(len(witnesses)) / float64(nw)
		var pick []Finding
		for i := 0; i < nw; i++ {
			pick = append(pick, witnesses[int(float64(i)*step)])
		}
		witnesses = pick
	}
	validated := 0
	exit := 0
	var confirmed []Finding
	var knownConfirmed []Finding
	collisionOnly := 0
	if !opts.NoReplay {
		// replay returns the cases that did not reproduce
		replay := func(cases []Finding, final bool) (mism []Finding) {
			if len(cases) == 0 {
				return nil
			}
			outs, err := nativeReplay(eng, cases)
			if err != nil {
				inconc = append(inconc, "native replay failed: "+err.Error())
				return nil
			}
			for i, c := range cases {
				o := outs[i]
				switch c.Kind {
				case "reach":
					if o.Result == "ok" && contains(o.Reached, c.Label) {
						validated++
					} else {
						inconc = append(inconc, fmt.Sprintf("ENGINE-MISMATCH: witness of %s%v reaches %q symbolically but natively: %s %s", c.Harness, c.Shape, c.Label, o.Result, o.Label))
					}
				case "known":
					if o.Result == "fail" || o.Result == "panic" || contains(o.Known, c.KnownID) {
						validated++
						knownConfirmed = append(knownConfirmed, c)
					} else if c.Candidate {
						inconc = append(inconc, fmt.Sprintf("floating-point obligation %q of %s%v undecided: the bit-precise query timed out and the real-model candidate does not reproduce natively", c.Label, c.Harness, c.Shape))
					} else if !final {
						mism = append(mism, c)
					} else {
						inconc = append(inconc, fmt.Sprintf("ENGINE-MISMATCH: known finding %s model does not reproduce natively (%s %s)", c.KnownID, o.Result, o.Label))
					}
				default:
					// monitor findings (lock discipline, package-level writes) are observations of the engine on a path;
					// natively only the feasibility of that path can be confirmed: the harness must run through
					if c.Kind == "monitor" && o.Result == "ok" {
						validated++
						confirmed = append(confirmed, c)
						continue
					}
					if o.Result == "fail" || o.Result == "panic" || (c.KnownID != "" && contains(o.Known, c.KnownID)) {
						validated++
						confirmed = append(confirmed, c)
					} else if c.Candidate {
						inconc = append(inconc, fmt.Sprintf("floating-point obligation %q of %s%v undecided: the bit-precise query timed out and the real-model candidate does not reproduce natively", c.Label, c.Harness, c.Shape))
					} else if !final {
						mism = append(mism, c)
					} else {
						inconc = append(inconc, fmt.Sprintf("ENGINE-MISMATCH: violation %q of %s%v does not reproduce natively (%s %s)", c.Label, c.Harness, c.Shape, o.Result, o.Label))
					}
				}
			}
			return mism
		}
		mism := replay(append(append(append([]Finding(nil), viols...), knownPick...), witnesses...), false)
		if len(mism) > 0 {
			// A counterexample that does not reproduce may rest on a collision of the uninterpreted CMAC / AES functions.
			// The items concerned are run again asking for collision-free models (exec.go: ufGeneric): what is still
			// violated then is replayed again (and must reproduce); what is not was satisfiable through collisions only.
			type key struct{ f, s string }
			want := map[key]bool{}
			for _, c := range mism {
				want[key{c.Harness, fmt.Sprint(c.Shape, c.Pre)}] = true
			}
			var sub []Item
			for _, it := range items {
				if want[key{it.Func, fmt.Sprint(it.Shape, it.Pre)}] {
					sub = append(sub, it)
				}
			}
			o2 := opts
			o2.UFGeneric = true
			o2.Verbose = false
			res2 := runItems(eng, sub, o2, known)
			var again []Finding
			for i, r := range res2 {
				if r.Err != "" {
					inconc = append(inconc, fmt.Sprintf("%s%v: engine error (collision-free re-run): %s", sub[i].Func, sub[i].Shape, r.Err))
				}
				for _, s := range r.Inconclusive {
					inconc = append(inconc, fmt.Sprintf("%s%v (collision-free re-run): %s", sub[i].Func, sub[i].Shape, s))
				}
				collisionOnly += r.CollisionOnly
				seen := map[string]bool{}
				for _, v := range append(append([]Finding(nil), r.Violations...), r.KnownHits...) {
					if !seen[v.Kind+v.Label+v.KnownID] {
						seen[v.Kind+v.Label+v.KnownID] = true
						again = append(again, v)
					}
				}
			}
			if len(again) > 24 {
				again = again[:24]
			}
			replay(again, true)
		}
	} else {
		confirmed = viols
		knownConfirmed = knownPick
	}
	// report
	os.MkdirAll(filepath.Join(verifDir, "replays"), 0o755)
	for i, v := range confirmed {
		path := filepath.Join(verifDir, "replays", fmt.Sprintf("%s-%d.json", spec.ID, i))
		b, _ := json.MarshalIndent(v, "", " ")
		os.WriteFile(path, b, 0o644)
		fmt.Printf("VIOLATION property=%s replay=%s harness=%s shape=%v kind=%s label=%q at=%s\n", spec.ID, path, v.Harness, v.Shape, v.Kind, v.Label, v.Pos)
		exit = 1
	}
	seenK := map[string]bool{}
	for _, k := range knownConfirmed {
		if seenK[k.KnownID] {
			continue
		}
		seenK[k.KnownID] = true
		desc := k.Label
		for _, f := range kfs {
			if f.ID == k.KnownID && f.Input != "" {
				desc = f.Input
			}
		}
		fmt.Printf("KNOWN-FINDING: property=%s %s: %s\n", spec.ID, k.KnownID, desc)
	}
	if exit == 0 && len(inconc) > 0 {
		exit = 3
		for i, s := range inconc {
			if i >= 10 {
				fmt.Printf("INCONCLUSIVE property=%s ... %d more\n", spec.ID, len(inconc)-i)
				break
			}
			fmt.Printf("INCONCLUSIVE property=%s %s\n", spec.ID, s)
		}
	}
	if collisionOnly > 0 && len(results) > 0 {
		results[0].CollisionOnly += collisionOnly
	}
	writeEvidence(spec, opts, items, results, knownConfirmed, inconc, validated, time.Since(t0).Seconds(), len(confirmed))
	if exit == 0 {
		fmt.Printf("OK property=%s tier=%s items=%d wall=%.1fs\n", spec.ID, opts.Tier, len(items), time.Since(t0).Seconds())
	}
	return exit
}

func contains(l []string, s string) bool {
	for _, x := range l {
		if x == s {
			return true
		}
	}
	return false
}

func writeEvidence(spec *PropSpec, opts RunOpts, items []Item, results []*ItemResult, known []Finding, inconc []string, validated int, wall float64, nviol int) {
	cov := map[string]interface{}{}
	var paths, steps, obl, dis, triv, relaxed, collOnly int
	var qs QueryStats
	funcs := map[string]bool{}
	var samples []interface{}
	shapesBy := map[string]int{}
	for i, r := range results {
		if r == nil {
			continue
		}
		paths += r.Paths
		steps += r.Steps
		obl += r.Obligations
		dis += r.Discharged
		triv += r.Trivial
		relaxed += r.Relaxed
		collOnly += r.CollisionOnly
		qs.add(&r.Stats)
		for f := range r.Funcs {
			if !strings.Contains(f, "verif") && !strings.Contains(f, "Verif") {
				funcs[f] = true
			}
		}
		shapesBy[items[i].Func]++
		if len(samples) < 6 && r.Witness != nil && (i%maxInt(1, len(results)/6) == 0) {
			s := map[string]interface{}{"harness": r.Harness, "shape": r.Shape, "paths": r.Paths, "obligations": r.Obligations, "discharged": r.Discharged, "witness_inputs": compactVals(r.Witness.Values)}
			if r.SampleObl != "" {
				s["discharged_obligation"] = r.SampleObl
			}
			samples = append(samples, s)
		}
	}
	if len(samples) == 0 {
		samples = append(samples, map[string]interface{}{"note": "no witness available", "items": len(items)})
	}
	var fl []string
	for f := range funcs {
		fl = append(fl, f)
	}
	sort.Strings(fl)
	if paths < 1 {
		paths = 1
	}
	if steps < 1 {
		steps = 1
	}
	cov["states"] = paths
	cov["transitions"] = steps
	cov["traces_validated_against_impl"] = validated
	cov["samples"] = samples
	cov["obligations"] = obl
	cov["discharged"] = dis
	cov["trivially_discharged"] = triv
	cov["discharged_in_real_rounding_error_model"] = relaxed
	cov["satisfiable_only_through_uf_collisions"] = collOnly
	cov["functions_encoded"] = fl
	cov["work_items"] = len(items)
	cov["shapes_per_harness"] = shapesBy
	// history items: main harness after other harness calls in the same process state
	hist := map[string]int{}
	nh := 0
	for _, it := range items {
		if len(it.Pre) > 0 {
			nh++
			k := it.Func + " after"
			for i := len(it.Pre) - 1; i >= 0; i-- {
				k += " " + it.Pre[i].Harness
			}
			hist[k]++
		}
	}
	cov["history_items"] = nh
	if nh > 0 {
		cov["history_items_by_kind"] = hist
	}
	summarized, candidates, truncated := 0, 0, 0
	for _, r := range results {
		if r != nil {
			summarized += r.Summarized
			candidates += r.Candidates
			if r.Truncated {
				truncated++
			}
		}
	}
	cov["calls_evaluated_by_function_summary"] = summarized
	cov["fp_obligations_answered_by_real_model_candidate"] = candidates
	cov["items_truncated_after_24_counterexamples"] = truncated
	cov["queries"] = map[string]int{"sat": qs.Sat, "unsat": qs.Unsat, "unknown": qs.Unknown, "fallback_to_second_solver": qs.Fallback, "solver_errors": qs.Errors}
	cov["solver_time_s"] = qs.TimeBy
	// bounds: the shape parameters enumerated by the driver (everything else is symbolic), per harness
	type rngT struct{ lo, hi []int }
	ranges := map[string]*rngT{}
	for _, it := range items {
		r := ranges[it.Func]
		if r == nil {
			r = &rngT{lo: append([]int(nil), it.Shape...), hi: append([]int(nil), it.Shape...)}
			ranges[it.Func] = r
			continue
		}
		for k, v := range it.Shape {
			if k < len(r.lo) {
				if v < r.lo[k] {
					r.lo[k] = v
				}
				if v > r.hi[k] {
					r.hi[k] = v
				}
			}
		}
	}
	bounds := map[string]interface{}{}
	for f, r := range ranges {
		var parts []string
		for k := range r.lo {
			if r.lo[k] == r.hi[k] {
				parts = append(parts, fmt.Sprintf("%d", r.lo[k]))
			} else {
				parts = append(parts, fmt.Sprintf("%d..%d", r.lo[k], r.hi[k]))
			}
		}
		bounds[f] = fmt.Sprintf("%d shapes, shape parameters within (%s); all nondet inputs symbolic over their full type unless restricted by verifAssume in the harness", shapesBy[f], strings.Join(parts, ", "))
	}
	for k, v := range spec.Bounds(opts.Tier) {
		bounds[k] = v
	}
	bounds["unwinding"] = fmt.Sprintf("at most %d visits per basic block and frame, %d instructions per path, %d paths per work item; exceeding any of them is reported INCONCLUSIVE", opts.MaxVisits, opts.MaxSteps, opts.MaxPaths)
	bounds["solver_timeout_ms"] = opts.TimeoutMs
	cov["bounds"] = bounds
	cov["stubs"] = spec.Stubs
	cov["outside_claim"] = spec.Outside
	var kf []string
	for _, k := range known {
		kf = append(kf, k.KnownID)
	}
	cov["known_findings_seen"] = kf
	cov["inconclusive"] = inconc
	cov["technique"] = "bounded symbolic execution of go/ssa of /repo (regenerated this run) + SMT (z3/cvc5); sat models replayed natively"
	ev := Evidence{PropertyID: spec.ID, Tier: opts.Tier, Seed: opts.Seed, Level: "model_checking", Coverage: cov, WallS: wall, Violations: nviol,
		Assumptions: append([]string{"GOARCH=amd64 integer widths", "SMT solver soundness (z3 4.8.12; cvc5 1.0 / z3 5.1 as fallback)", "go/ssa lowering faithful (witness models replayed natively: see traces_validated_against_impl)", "loops unrolled; unwinding bound exceeded => INCONCLUSIVE, never success"}, spec.Assumptions...)}
	b, _ := json.MarshalIndent(ev, "", " ")
	os.MkdirAll(filepath.Join(verifDir, "evidence"), 0o755)
	os.WriteFile(filepath.Join(verifDir, "evidence", spec.ID+".json"), b, 0o644)
}

func maxInt(a, b int) int {
	if a > b {
		return a
	}
	return b
}

func compactVals(vs []ReplayVal) string {
	var sb strings.Builder
	for i, v := range vs {
		if i > 0 {
			sb.WriteByte(' ')
		}
		if sb.Len() > 400 {
			sb.WriteString("...")
			break
		}
		fmt.Fprintf(&sb, "%s=%#x", v.Name, v.Val)
	}
	return sb.String()
}
