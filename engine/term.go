package main

// Hash-consed SMT terms with constant folding. One Ctx per worker (not thread-safe).

import (
	"fmt"
	"os"
	"math"
	"math/bits"
	"strconv"
	"strings"
)

type Kind uint8

const (
	KBool Kind = iota
	KBV
	KFP
)

type Sort struct {
	K Kind
	W int // bit width (BV) or 32/64 (FP)
}

var SBool = Sort{KBool, 1}

func BV(w int) Sort { return Sort{KBV, w} }
func FP(w int) Sort { return Sort{KFP, w} }

func (s Sort) String() string {
	switch s.K {
	case KBool:
		return "Bool"
	case KBV:
		return fmt.Sprintf("(_ BitVec %d)", s.W)
	default:
		if s.W == 32 {
			return "(_ FloatingPoint 8 24)"
		}
		return "(_ FloatingPoint 11 53)"
	}
}

type Op uint8

const (
	OConst Op = iota
	OVar
	ONot
	OAnd
	OOr
	OIte
	OEq
	OBvAdd
	OBvSub
	OBvMul
	OBvUDiv
	OBvURem
	OBvSDiv
	OBvSRem
	OBvAnd
	OBvOr
	OBvXor
	OBvNot
	OBvNeg
	OBvShl
	OBvLShr
	OBvAShr
	OBvULt
	OBvULe
	OBvSLt
	OBvSLe
	OConcat
	OExtract // P1=hi P2=lo
	OZExt    // to sort width
	OSExt
	OFAdd
	OFSub
	OFMul
	OFDiv
	OFNeg
	OFAbs
	OFLt
	OFLe
	OFEq
	OFMax
	OFMin
	OFCeil
	OFFloor
	OFTrunc
	OFRoundNA // round to nearest, ties away (math.Round)
	OSToF
	OUToF
	OFToS
	OFToU
	OFToF
	OFFromBits
	OFIsNaN
	OApp // uninterpreted function, Name
)

var opNames = map[Op]string{
	ONot: "not", OAnd: "and", OOr: "or", OIte: "ite", OEq: "=",
	OBvAdd: "bvadd", OBvSub: "bvsub", OBvMul: "bvmul", OBvUDiv: "bvudiv", OBvURem: "bvurem",
	OBvSDiv: "bvsdiv", OBvSRem: "bvsrem", OBvAnd: "bvand", OBvOr: "bvor", OBvXor: "bvxor",
	OBvNot: "bvnot", OBvNeg: "bvneg", OBvShl: "bvshl", OBvLShr: "bvlshr", OBvAShr: "bvashr",
	OBvULt: "bvult", OBvULe: "bvule", OBvSLt: "bvslt", OBvSLe: "bvsle", OConcat: "concat",
	OFNeg: "fp.neg", OFAbs: "fp.abs", OFLt: "fp.lt", OFLe: "fp.leq", OFEq: "fp.eq", OFMax: "fp.max", OFMin: "fp.min",
	OFIsNaN: "fp.isNaN",
}

type Term struct {
	Op   Op
	S    Sort
	Args []*Term
	Val  uint64 // constant value (BV<=64: masked value; Bool: 0/1; FP: IEEE bits)
	P1   int
	P2   int
	Name string // var or UF name
	ID   int
	hasUF bool
}

func (t *Term) IsConst() bool { return t.Op == OConst }
func (t *Term) IsTrue() bool  { return t.Op == OConst && t.S.K == KBool && t.Val == 1 }
func (t *Term) IsFalse() bool { return t.Op == OConst && t.S.K == KBool && t.Val == 0 }

type UFDecl struct {
	Name string
	Args []Sort
	Ret  Sort
}

type Ctx struct {
	tab    map[string]*Term
	nextID int
	Vars   []*Term // declared variables in creation order
	UFs    map[string]*UFDecl
	UFList []*UFDecl
	Axioms []*Term // global facts (UF inverse axioms)
	True   *Term
	False  *Term
}

func NewCtx() *Ctx {
	c := &Ctx{tab: map[string]*Term{}, UFs: map[string]*UFDecl{}}
	c.True = c.Bool(true)
	c.False = c.Bool(false)
	return c
}

func mask(w int) uint64 {
	if w >= 64 {
		return ^uint64(0)
	}
	return (uint64(1) << uint(w)) - 1
}

func (c *Ctx) intern(t *Term) *Term {
	var sb strings.Builder
	sb.WriteByte(byte(t.Op))
	sb.WriteByte(byte(t.S.K))
	sb.WriteString(strconv.Itoa(t.S.W))
	sb.WriteByte('|')
	switch t.Op {
	case OConst:
		sb.WriteString(strconv.FormatUint(t.Val, 16))
	case OVar:
		sb.WriteString(t.Name)
	default:
		if t.Name != "" {
			sb.WriteString(t.Name)
			sb.WriteByte('|')
		}
		if t.Op == OExtract {
			sb.WriteString(strconv.Itoa(t.P1))
			sb.WriteByte(':')
			sb.WriteString(strconv.Itoa(t.P2))
			sb.WriteByte('|')
		}
		for _, a := range t.Args {
			sb.WriteString(strconv.Itoa(a.ID))
			sb.WriteByte(',')
		}
	}
	k := sb.String()
	if e, ok := c.tab[k]; ok {
		return e
	}
	c.nextID++
	t.ID = c.nextID
	for _, a := range t.Args {
		if a.hasUF {
			t.hasUF = true
		}
	}
	if t.Op == OApp {
		t.hasUF = true
	}
	c.tab[k] = t
	return t
}

func (c *Ctx) Const(s Sort, v uint64) *Term {
	if s.K == KBV {
		if s.W > 64 {
			panic("wide const")
		}
		v &= mask(s.W)
	}
	return c.intern(&Term{Op: OConst, S: s, Val: v})
}

func (c *Ctx) Bool(b bool) *Term {
	if b {
		return c.Const(SBool, 1)
	}
	return c.Const(SBool, 0)
}

func (c *Ctx) BVConst(w int, v uint64) *Term { return c.Const(BV(w), v) }

func (c *Ctx) F64Const(f float64) *Term { return c.Const(FP(64), math.Float64bits(f)) }
func (c *Ctx) F32Const(f float32) *Term { return c.Const(FP(32), uint64(math.Float32bits(f))) }

func (c *Ctx) Var(name string, s Sort) *Term {
	n := len(c.tab)
	t := c.intern(&Term{Op: OVar, S: s, Name: name})
	if len(c.tab) != n {
		c.Vars = append(c.Vars, t)
	}
	return t
}

func (c *Ctx) mk(op Op, s Sort, args ...*Term) *Term {
	return c.intern(&Term{Op: op, S: s, Args: args})
}

// ---------- Boolean ----------

func (c *Ctx) Not(a *Term) *Term {
	if a.IsConst() {
		return c.Bool(a.Val == 0)
	}
	if a.Op == ONot {
		return a.Args[0]
	}
	return c.mk(ONot, SBool, a)
}

func (c *Ctx) And(a, b *Term) *Term {
	if a.IsConst() {
		if a.Val == 0 {
			return a
		}
		return b
	}
	if b.IsConst() {
		if b.Val == 0 {
			return b
		}
		return a
	}
	if a == b {
		return a
	}
	if c.Not(a) == b {
		return c.False
	}
	return c.mk(OAnd, SBool, a, b)
}

func (c *Ctx) Or(a, b *Term) *Term {
	if a.IsConst() {
		if a.Val == 1 {
			return a
		}
		return b
	}
	if b.IsConst() {
		if b.Val == 1 {
			return b
		}
		return a
	}
	if a == b {
		return a
	}
	if c.Not(a) == b {
		return c.True
	}
	return c.mk(OOr, SBool, a, b)
}

func (c *Ctx) AndN(ts ...*Term) *Term {
	r := c.True
	for _, t := range ts {
		r = c.And(r, t)
	}
	return r
}

func (c *Ctx) Implies(a, b *Term) *Term { return c.Or(c.Not(a), b) }

func (c *Ctx) Ite(cond, a, b *Term) *Term {
	if a.S != b.S {
		panic(fmt.Sprintf("ite sort mismatch %v %v", a.S, b.S))
	}
	if cond.IsConst() {
		if cond.Val == 1 {
			return a
		}
		return b
	}
	if a == b {
		return a
	}
	if a.S.K == KBool {
		if a.IsTrue() && b.IsFalse() {
			return cond
		}
		if a.IsFalse() && b.IsTrue() {
			return c.Not(cond)
		}
		if a.IsTrue() {
			return c.Or(cond, b)
		}
		if a.IsFalse() {
			return c.And(c.Not(cond), b)
		}
		if b.IsTrue() {
			return c.Or(c.Not(cond), a)
		}
		if b.IsFalse() {
			return c.And(cond, a)
		}
	}
	if cond.Op == ONot {
		return c.mk(OIte, a.S, cond.Args[0], b, a)
	}
	return c.mk(OIte, a.S, cond, a, b)
}

func (c *Ctx) Eq(a, b *Term) *Term {
	if a.S != b.S {
		panic(fmt.Sprintf("eq sort mismatch %v %v", a.S, b.S))
	}
	if a == b {
		if a.S.K == KFP {
			// bitwise identical terms: SMT '=' on FP is structural equality -> true
			return c.True
		}
		return c.True
	}
	if a.IsConst() && b.IsConst() {
		return c.Bool(a.Val == b.Val)
	}
	if a.S.K == KBool {
		if a.IsConst() {
			a, b = b, a
		}
		if b.IsTrue() {
			return a
		}
		if b.IsFalse() {
			return c.Not(a)
		}
	}
	if a.S.K == KBV && a.S.W <= 64 {
		if b.IsConst() && isConstTree(a) {
			return c.mapLeaves(a, func(k *Term) *Term { return c.Bool(k.Val == b.Val) })
		}
		if a.IsConst() && isConstTree(b) {
			return c.mapLeaves(b, func(k *Term) *Term { return c.Bool(k.Val == a.Val) })
		}
	}
	// eq(ite(c,k1,k2), k3) with constants
	if b.IsConst() && a.Op == OIte && a.Args[1].IsConst() && a.Args[2].IsConst() {
		t1 := a.Args[1].Val == b.Val
		t2 := a.Args[2].Val == b.Val
		switch {
		case t1 && t2:
			return c.True
		case t1:
			return a.Args[0]
		case t2:
			return c.Not(a.Args[0])
		default:
			return c.False
		}
	}
	if a.IsConst() && b.Op == OIte {
		return c.Eq(b, a)
	}
	// zext(x) == const
	if b.IsConst() && a.Op == OZExt && a.S.K == KBV {
		in := a.Args[0]
		if b.Val > mask(in.S.W) {
			return c.False
		}
		return c.Eq(in, c.Const(in.S, b.Val))
	}
	if a.IsConst() && b.Op == OZExt {
		return c.Eq(b, a)
	}
	if a.ID > b.ID {
		a, b = b, a
	}
	return c.mk(OEq, SBool, a, b)
}

// ---------- Bit-vectors ----------

func sext64(v uint64, w int) int64 {
	if w >= 64 {
		return int64(v)
	}
	sh := uint(64 - w)
	return int64(v<<sh) >> sh
}

func (c *Ctx) BvBin(op Op, a, b *Term) *Term {
	if a.S != b.S || a.S.K != KBV {
		panic(fmt.Sprintf("bvbin sort mismatch %v %v op %d", a.S, b.S, op))
	}
	w := a.S.W
	if a.IsConst() && b.IsConst() && w <= 64 {
		x, y := a.Val, b.Val
		var r uint64
		switch op {
		case OBvAdd:
			r = x + y
		case OBvSub:
			r = x - y
		case OBvMul:
			r = x * y
		case OBvUDiv:
			if y == 0 {
				r = mask(w)
			} else {
				r = x / y
			}
		case OBvURem:
			if y == 0 {
				r = x
			} else {
				r = x % y
			}
		case OBvSDiv:
			sx, sy := sext64(x, w), sext64(y, w)
			if sy == 0 {
				if sx >= 0 {
					r = mask(w)
				} else {
					r = 1
				}
			} else if sy == -1 {
				r = uint64(-sx)
			} else {
				r = uint64(sx / sy)
			}
		case OBvSRem:
			sx, sy := sext64(x, w), sext64(y, w)
			if sy == 0 {
				r = x
			} else if sy == -1 {
				r = 0
			} else {
				r = uint64(sx % sy)
			}
		case OBvAnd:
			r = x & y
		case OBvOr:
			r = x | y
		case OBvXor:
			r = x ^ y
		case OBvShl:
			if y >= uint64(w) {
				r = 0
			} else {
				r = x << y
			}
		case OBvLShr:
			if y >= uint64(w) {
				r = 0
			} else {
				r = x >> y
			}
		case OBvAShr:
			sx := sext64(x, w)
			if y >= uint64(w) {
				if sx < 0 {
					r = mask(w)
				} else {
					r = 0
				}
			} else {
				r = uint64(sx >> y)
			}
		default:
			panic("bvbin op")
		}
		return c.Const(a.S, r)
	}
	if w <= 64 {
		if b.IsConst() && isConstTree(a) {
			return c.mapLeaves(a, func(k *Term) *Term { return c.BvBin(op, k, b) })
		}
		if a.IsConst() && isConstTree(b) {
			return c.mapLeaves(b, func(k *Term) *Term { return c.BvBin(op, a, k) })
		}
	}
	// identities
	switch op {
	case OBvAdd, OBvOr, OBvXor:
		if a.IsConst() && a.Val == 0 {
			return b
		}
		if b.IsConst() && b.Val == 0 {
			return a
		}
		if op == OBvXor && a == b {
			return c.Const(a.S, 0)
		}
		// (x ^ k) ^ k = x
		if op == OBvXor && a.Op == OBvXor {
			if a.Args[0] == b {
				return a.Args[1]
			}
			if a.Args[1] == b {
				return a.Args[0]
			}
		}
		if op == OBvXor && b.Op == OBvXor {
			if b.Args[0] == a {
				return b.Args[1]
			}
			if b.Args[1] == a {
				return b.Args[0]
			}
		}
		if op == OBvOr && a == b {
			return a
		}
	case OBvSub:
		if b.IsConst() && b.Val == 0 {
			return a
		}
		if a == b && w <= 64 {
			return c.Const(a.S, 0)
		}
		// (p + q) - p = q
		if a.Op == OBvAdd {
			if a.Args[0] == b {
				return a.Args[1]
			}
			if a.Args[1] == b {
				return a.Args[0]
			}
		}
	case OBvSDiv, OBvSRem:
		// both operands provably non-negative: signed == unsigned
		if w <= 64 && b.IsConst() && b.Val != 0 {
			_, ah := c.URange(a)
			half := uint64(1) << uint(w-1)
			if ah < half && b.Val < half {
				if op == OBvSDiv {
					return c.BvBin(OBvUDiv, a, b)
				}
				return c.BvBin(OBvURem, a, b)
			}
		}
	case OBvShl, OBvLShr, OBvAShr:
		if b.IsConst() && b.Val == 0 {
			return a
		}
		if a.IsConst() && a.Val == 0 {
			return a
		}
		if b.IsConst() && b.Val >= uint64(w) && op != OBvAShr {
			return c.Const(a.S, 0)
		}
		// shifts by a byte-aligned constant of a zero-extended/concat value: keep generic
	case OBvMul:
		if a.IsConst() && a.Val == 1 {
			return b
		}
		if b.IsConst() && b.Val == 1 {
			return a
		}
		if (a.IsConst() && a.Val == 0) || (b.IsConst() && b.Val == 0) {
			return c.Const(a.S, 0)
		}
	case OBvAnd:
		if a.IsConst() && w <= 64 {
			if a.Val == 0 {
				return a
			}
			if a.Val == mask(w) {
				return b
			}
		}
		if b.IsConst() && w <= 64 {
			if b.Val == 0 {
				return b
			}
			if b.Val == mask(w) {
				return a
			}
			// and with low mask 2^k-1 -> zext(extract)
			if b.Val&(b.Val+1) == 0 {
				k := bits.Len64(b.Val)
				return c.ZExt(c.Extract(a, k-1, 0), w)
			}
		}
		if a == b {
			return a
		}
	case OBvUDiv, OBvURem:
		if op == OBvUDiv && b.IsConst() && b.Val == 1 {
			return a
		}
		// (x*k + y) / k = x and (x*k + y) % k = y when y < k and nothing overflows
		if b.IsConst() && b.Val > 1 && a.Op == OBvAdd && w <= 64 {
			for i := 0; i < 2; i++ {
				m, y := a.Args[i], a.Args[1-i]
				if m.Op != OBvMul {
					continue
				}
				for j := 0; j < 2; j++ {
					k, x := m.Args[j], m.Args[1-j]
					if !k.IsConst() || k.Val != b.Val {
						continue
					}
					_, xh := c.URange(x)
					_, yh := c.URange(y)
					h, l := bits.Mul64(xh, k.Val)
					sum, carry := bits.Add64(l, yh, 0)
					if h == 0 && carry == 0 && sum <= mask(w) && yh < k.Val {
						if op == OBvUDiv {
							return x
						}
						return y
					}
				}
			}
		}
		// distribute over ite when both sides simplify
		if b.IsConst() && b.Val > 1 && a.Op == OIte && w <= 64 {
			ra := c.BvBin(op, a.Args[1], b)
			rb := c.BvBin(op, a.Args[2], b)
			simp := func(r *Term) bool { return !(r.Op == op && len(r.Args) == 2 && r.Args[1] == b) }
			if simp(ra) && simp(rb) {
				return c.Ite(a.Args[0], ra, rb)
			}
		}
		// (x * k) / d = x * (k/d) and (x * k) % d = 0 when d divides k and the product cannot overflow
		if b.IsConst() && b.Val > 1 && a.Op == OBvMul && w <= 64 {
			for i := 0; i < 2; i++ {
				k, x := a.Args[i], a.Args[1-i]
				if k.IsConst() && k.Val != b.Val && k.Val%b.Val == 0 {
					_, hi := c.URange(x)
					h, l := bits.Mul64(hi, k.Val)
					if h == 0 && l <= mask(w) {
						if op == OBvUDiv {
							return c.BvBin(OBvMul, x, c.Const(a.S, k.Val/b.Val))
						}
						return c.Const(a.S, 0)
					}
				}
			}
		}
		// (x * k) / k = x and (x * k) % k = 0 when the product cannot overflow
		if b.IsConst() && b.Val > 1 && a.Op == OBvMul && w <= 64 {
			for i := 0; i < 2; i++ {
				k, x := a.Args[i], a.Args[1-i]
				if k.IsConst() && k.Val == b.Val {
					_, hi := c.URange(x)
					h, l := bits.Mul64(hi, k.Val)
					if h == 0 && l <= mask(w) {
						if op == OBvUDiv {
							return x
						}
						return c.Const(a.S, 0)
					}
				}
			}
		}
	}
	if op == OBvOr {
		// OR of values occupying disjoint bit ranges (little-endian reassembly b0 | b1<<8 | ...) -> concat
		if r := c.orAsConcat(a, b); r != nil {
			return r
		}
	}
	// commutative ordering
	switch op {
	case OBvAdd, OBvMul, OBvAnd, OBvOr, OBvXor:
		if a.ID > b.ID {
			a, b = b, a
		}
	}
	return c.mk(op, a.S, a, b)
}

func (c *Ctx) BvCmp(op Op, a, b *Term) *Term {
	if a.S != b.S || a.S.K != KBV {
		panic(fmt.Sprintf("bvcmp sort mismatch %v %v", a.S, b.S))
	}
	w := a.S.W
	if a.IsConst() && b.IsConst() {
		x, y := a.Val, b.Val
		switch op {
		case OBvULt:
			return c.Bool(x < y)
		case OBvULe:
			return c.Bool(x <= y)
		case OBvSLt:
			return c.Bool(sext64(x, w) < sext64(y, w))
		case OBvSLe:
			return c.Bool(sext64(x, w) <= sext64(y, w))
		}
	}
	if a == b {
		return c.Bool(op == OBvULe || op == OBvSLe)
	}
	if w <= 64 {
		if b.IsConst() && isConstTree(a) {
			return c.mapLeaves(a, func(k *Term) *Term { return c.BvCmp(op, k, b) })
		}
		if a.IsConst() && isConstTree(b) {
			return c.mapLeaves(b, func(k *Term) *Term { return c.BvCmp(op, a, k) })
		}
	}
	if w <= 64 {
		// range-based folding for unsigned compares
		alo, ahi := c.URange(a)
		blo, bhi := c.URange(b)
		switch op {
		case OBvULt:
			if ahi < blo {
				return c.True
			}
			if alo >= bhi {
				return c.False
			}
		case OBvULe:
			if ahi <= blo {
				return c.True
			}
			if alo > bhi {
				return c.False
			}
		case OBvSLt, OBvSLe:
			// if both ranges are within the non-negative half, signed == unsigned
			half := uint64(1) << uint(w-1)
			if ahi < half && bhi < half {
				if op == OBvSLt {
					return c.BvCmp(OBvULt, a, b)
				}
				return c.BvCmp(OBvULe, a, b)
			}
		}
	}
	return c.mk(op, SBool, a, b)
}

// URange returns conservative unsigned bounds of a BV term (width<=64).
func (c *Ctx) URange(t *Term) (uint64, uint64) {
	w := t.S.W
	if w > 64 {
		return 0, ^uint64(0)
	}
	switch t.Op {
	case OConst:
		return t.Val, t.Val
	case OZExt:
		if t.Args[0].S.W <= 64 {
			return c.URange(t.Args[0])
		}
	case OIte:
		l1, h1 := c.URange(t.Args[1])
		l2, h2 := c.URange(t.Args[2])
		if l2 < l1 {
			l1 = l2
		}
		if h2 > h1 {
			h1 = h2
		}
		return l1, h1
	case OBvAnd:
		_, h1 := c.URange(t.Args[0])
		_, h2 := c.URange(t.Args[1])
		if h2 < h1 {
			h1 = h2
		}
		return 0, h1
	case OBvURem:
		if t.Args[1].IsConst() && t.Args[1].Val > 0 {
			return 0, t.Args[1].Val - 1
		}
	case OBvOr, OBvXor:
		_, h1 := c.URange(t.Args[0])
		_, h2 := c.URange(t.Args[1])
		if h2 > h1 {
			h1 = h2
		}
		n := bits.Len64(h1)
		if n >= 64 {
			return 0, mask(w)
		}
		return 0, (uint64(1) << uint(n)) - 1
	case OBvShl:
		if t.Args[1].IsConst() && t.Args[1].Val < 64 {
			_, h := c.URange(t.Args[0])
			k := uint(t.Args[1].Val)
			if bits.Len64(h)+int(k) <= w {
				return 0, h << k
			}
		}
	case OConcat:
		if t.Args[0].IsConst() && t.Args[0].Val == 0 {
			rest := 0
			for _, a := range t.Args[1:] {
				rest += a.S.W
			}
			if rest < 64 {
				return 0, (uint64(1) << uint(rest)) - 1
			}
		}
	case OBvLShr:
		if t.Args[1].IsConst() && t.Args[1].Val < 64 {
			_, h := c.URange(t.Args[0])
			return 0, h >> t.Args[1].Val
		}
	case OBvUDiv:
		if t.Args[1].IsConst() && t.Args[1].Val > 0 {
			l, h := c.URange(t.Args[0])
			return l / t.Args[1].Val, h / t.Args[1].Val
		}
	case OBvAdd:
		l1, h1 := c.URange(t.Args[0])
		l2, h2 := c.URange(t.Args[1])
		hs, carry := bits.Add64(h1, h2, 0)
		if carry == 0 && hs <= mask(w) {
			return l1 + l2, hs
		}
	case OBvMul:
		l1, h1 := c.URange(t.Args[0])
		l2, h2 := c.URange(t.Args[1])
		hi, lo := bits.Mul64(h1, h2)
		if hi == 0 && lo <= mask(w) {
			return l1 * l2, lo
		}
	}
	return 0, mask(w)
}

func (c *Ctx) BvNot(a *Term) *Term {
	if a.IsConst() && a.S.W <= 64 {
		return c.Const(a.S, ^a.Val)
	}
	if a.Op == OBvNot {
		return a.Args[0]
	}
	return c.mk(OBvNot, a.S, a)
}

func (c *Ctx) BvNeg(a *Term) *Term {
	if a.IsConst() && a.S.W <= 64 {
		return c.Const(a.S, -a.Val)
	}
	return c.mk(OBvNeg, a.S, a)
}

func (c *Ctx) Extract(a *Term, hi, lo int) *Term {
	if a.S.K != KBV || hi < lo || hi >= a.S.W || lo < 0 {
		panic(fmt.Sprintf("bad extract %d:%d of %v", hi, lo, a.S))
	}
	if lo == 0 && hi == a.S.W-1 {
		return a
	}
	w := hi - lo + 1
	if a.IsConst() {
		return c.Const(BV(w), a.Val>>uint(lo))
	}
	switch a.Op {
	case OExtract:
		return c.Extract(a.Args[0], a.P2+hi, a.P2+lo)
	case OZExt:
		in := a.Args[0]
		if hi < in.S.W {
			return c.Extract(in, hi, lo)
		}
		if lo >= in.S.W {
			if w <= 64 {
				return c.Const(BV(w), 0)
			}
		} else if w <= 64 || true {
			return c.ZExt(c.Extract(in, in.S.W-1, lo), w)
		}
	case OSExt:
		in := a.Args[0]
		if hi < in.S.W {
			return c.Extract(in, hi, lo)
		}
	case OConcat:
		// args[0] is most significant
		pos := a.S.W
		for _, p := range a.Args {
			top := pos - 1
			bot := pos - p.S.W
			if hi <= top && lo >= bot {
				return c.Extract(p, hi-bot, lo-bot)
			}
			pos = bot
		}
		// spans several parts: rebuild from the covered parts
		var parts []*Term
		pos = a.S.W
		for _, p := range a.Args {
			top := pos - 1
			bot := pos - p.S.W
			pos = bot
			if top < lo || bot > hi {
				continue
			}
			h := top
			if hi < h {
				h = hi
			}
			l := bot
			if lo > l {
				l = lo
			}
			parts = append(parts, c.Extract(p, h-bot, l-bot))
		}
		return c.Concat(parts...)
	case OIte:
		if w <= 64 && isConstTree(a) {
			return c.mapLeaves(a, func(k *Term) *Term { return c.Const(BV(w), k.Val>>uint(lo)) })
		}
	case OBvAnd, OBvOr, OBvXor:
		// bitwise ops distribute over extract; only do it when an argument is constant (keeps terms small)
		if a.Args[0].IsConst() || a.Args[1].IsConst() {
			return c.BvBin(a.Op, c.Extract(a.Args[0], hi, lo), c.Extract(a.Args[1], hi, lo))
		}
	case OBvMul, OBvAdd, OBvSub:
		// the low n bits of a product / sum depend only on the low n bits of the operands
		if lo == 0 {
			return c.BvBin(a.Op, c.Extract(a.Args[0], hi, 0), c.Extract(a.Args[1], hi, 0))
		}
	case OBvShl:
		// (x << k)[hi:lo] with const k
		if a.Args[1].IsConst() {
			k := int(a.Args[1].Val)
			if lo >= k {
				return c.Extract(a.Args[0], hi-k, lo-k)
			}
			if hi < k && w <= 64 {
				return c.Const(BV(w), 0)
			}
		}
	case OBvLShr:
		if a.Args[1].IsConst() {
			k := int(a.Args[1].Val)
			if hi+k < a.S.W {
				return c.Extract(a.Args[0], hi+k, lo+k)
			}
			if lo+k >= a.S.W && w <= 64 {
				return c.Const(BV(w), 0)
			}
		}
	}
	return c.intern(&Term{Op: OExtract, S: BV(w), Args: []*Term{a}, P1: hi, P2: lo})
}

// Concat: args[0] is the most significant part.
func (c *Ctx) Concat(parts ...*Term) *Term {
	var flat []*Term
	for _, p := range parts {
		if p.Op == OConcat {
			flat = append(flat, p.Args...)
		} else {
			flat = append(flat, p)
		}
	}
	// merge adjacent constants and adjacent extracts of the same term
	var out []*Term
	for _, p := range flat {
		if n := len(out); n > 0 {
			q := out[n-1]
			if q.IsConst() && p.IsConst() && q.S.W+p.S.W <= 64 {
				out[n-1] = c.Const(BV(q.S.W+p.S.W), q.Val<<uint(p.S.W)|p.Val)
				continue
			}
			if q.Op == OExtract && p.Op == OExtract && q.Args[0] == p.Args[0] && q.P2 == p.P1+1 {
				out[n-1] = c.Extract(q.Args[0], q.P1, p.P2)
				continue
			}
			// extract(x,hi,k) ++ x' where x' is the full low part: x has width k => q is extract of something ending where p==lower sub-term. skip
		}
		out = append(out, p)
	}
	if len(out) == 1 {
		return out[0]
	}
	w := 0
	for _, p := range out {
		w += p.S.W
	}
	return c.intern(&Term{Op: OConcat, S: BV(w), Args: out})
}

func (c *Ctx) ZExt(a *Term, w int) *Term {
	if a.S.W == w {
		return a
	}
	if a.S.W > w {
		panic("zext narrower")
	}
	if a.IsConst() && w <= 64 {
		return c.Const(BV(w), a.Val)
	}
	if a.Op == OZExt {
		return c.ZExt(a.Args[0], w)
	}
	if w <= 64 && isConstTree(a) {
		return c.mapLeaves(a, func(k *Term) *Term { return c.Const(BV(w), k.Val) })
	}
	return c.intern(&Term{Op: OZExt, S: BV(w), Args: []*Term{a}})
}

func (c *Ctx) SExt(a *Term, w int) *Term {
	if a.S.W == w {
		return a
	}
	if a.S.W > w {
		panic("sext narrower")
	}
	if a.IsConst() && w <= 64 {
		return c.Const(BV(w), uint64(sext64(a.Val, a.S.W)))
	}
	if a.Op == OZExt {
		// zero-extended value is non-negative
		return c.ZExt(a.Args[0], w)
	}
	if w <= 64 && isConstTree(a) {
		aw := a.S.W
		return c.mapLeaves(a, func(k *Term) *Term { return c.Const(BV(w), uint64(sext64(k.Val, aw))) })
	}
	return c.intern(&Term{Op: OSExt, S: BV(w), Args: []*Term{a}})
}

// Resize converts a BV term to width w (truncate or extend by signedness).
func (c *Ctx) Resize(a *Term, w int, signed bool) *Term {
	switch {
	case a.S.W == w:
		return a
	case a.S.W > w:
		return c.Extract(a, w-1, 0)
	case signed:
		return c.SExt(a, w)
	default:
		return c.ZExt(a, w)
	}
}

// ---------- Floating point ----------

func fbits(t *Term) float64 {
	if t.S.W == 32 {
		return float64(math.Float32frombits(uint32(t.Val)))
	}
	return math.Float64frombits(t.Val)
}

func (c *Ctx) fconst(s Sort, f float64) *Term {
	if s.W == 32 {
		return c.F32Const(float32(f))
	}
	return c.F64Const(f)
}

func (c *Ctx) FBin(op Op, a, b *Term) *Term {
	if a.S != b.S || a.S.K != KFP {
		panic("fbin sort")
	}
	if a.IsConst() && b.IsConst() {
		x, y := fbits(a), fbits(b)
		if a.S.W == 32 {
			x32, y32 := float32(x), float32(y)
			var r float32
			switch op {
			case OFAdd:
				r = x32 + y32
			case OFSub:
				r = x32 - y32
			case OFMul:
				r = x32 * y32
			case OFDiv:
				r = x32 / y32
			case OFMax:
				r = float32(math.Max(x, y))
			case OFMin:
				r = float32(math.Min(x, y))
			}
			return c.F32Const(r)
		}
		var r float64
		switch op {
		case OFAdd:
			r = x + y
		case OFSub:
			r = x - y
		case OFMul:
			r = x * y
		case OFDiv:
			r = x / y
		case OFMax:
			r = math.Max(x, y)
		case OFMin:
			r = math.Min(x, y)
		}
		return c.F64Const(r)
	}
	return c.mk(op, a.S, a, b)
}

func (c *Ctx) FCmp(op Op, a, b *Term) *Term {
	if a.S != b.S || a.S.K != KFP {
		panic("fcmp sort")
	}
	if a.IsConst() && b.IsConst() {
		x, y := fbits(a), fbits(b)
		switch op {
		case OFLt:
			return c.Bool(x < y)
		case OFLe:
			return c.Bool(x <= y)
		case OFEq:
			return c.Bool(x == y)
		}
	}
	return c.mk(op, SBool, a, b)
}

func (c *Ctx) FUn(op Op, a *Term) *Term {
	if a.IsConst() {
		x := fbits(a)
		var r float64
		switch op {
		case OFNeg:
			r = -x
		case OFAbs:
			r = math.Abs(x)
		case OFCeil:
			r = math.Ceil(x)
		case OFFloor:
			r = math.Floor(x)
		case OFTrunc:
			r = math.Trunc(x)
		case OFRoundNA:
			r = math.Round(x)
		}
		return c.fconst(a.S, r)
	}
	return c.mk(op, a.S, a)
}

func (c *Ctx) FIsNaN(a *Term) *Term {
	if a.IsConst() {
		return c.Bool(math.IsNaN(fbits(a)))
	}
	return c.mk(OFIsNaN, SBool, a)
}

// IntToF converts a BV to FP (round to nearest even, as Go does).
func (c *Ctx) IntToF(a *Term, fw int, signed bool) *Term {
	if a.IsConst() && a.S.W <= 64 {
		var f float64
		if signed {
			iv := sext64(a.Val, a.S.W)
			if fw == 32 {
				return c.F32Const(float32(iv))
			}
			f = float64(iv)
		} else {
			if fw == 32 {
				return c.F32Const(float32(a.Val))
			}
			f = float64(a.Val)
		}
		return c.F64Const(f)
	}
	op := OUToF
	if signed {
		op = OSToF
	}
	return c.mk(op, FP(fw), a)
}

// FToInt converts FP to BV of width w with truncation toward zero.
func (c *Ctx) FToInt(a *Term, w int, signed bool) *Term {
	if a.IsConst() {
		x := fbits(a)
		if signed {
			return c.Const(BV(w), uint64(int64(x)))
		}
		return c.Const(BV(w), uint64(x))
	}
	op := OFToU
	if signed {
		op = OFToS
	}
	return c.mk(op, BV(w), a)
}

func (c *Ctx) FToF(a *Term, fw int) *Term {
	if a.S.W == fw {
		return a
	}
	if a.IsConst() {
		x := fbits(a)
		return c.fconst(FP(fw), x)
	}
	return c.mk(OFToF, FP(fw), a)
}

func (c *Ctx) FFromBits(a *Term) *Term {
	if a.IsConst() {
		return c.Const(FP(a.S.W), a.Val)
	}
	return c.mk(OFFromBits, FP(a.S.W), a)
}

// ---------- Uninterpreted functions ----------

func (c *Ctx) App(name string, ret Sort, args ...*Term) *Term {
	d, ok := c.UFs[name]
	if !ok {
		d = &UFDecl{Name: name, Ret: ret}
		for _, a := range args {
			d.Args = append(d.Args, a.S)
		}
		c.UFs[name] = d
		c.UFList = append(c.UFList, d)
	}
	return c.intern(&Term{Op: OApp, S: ret, Args: args, Name: name})
}

// ---------- Printing ----------

func constStr(t *Term) string {
	switch t.S.K {
	case KBool:
		if t.Val == 1 {
			return "true"
		}
		return "false"
	case KBV:
		if t.S.W%4 == 0 {
			return fmt.Sprintf("#x%0*x", t.S.W/4, t.Val)
		}
		return fmt.Sprintf("(_ bv%d %d)", t.Val, t.S.W)
	default:
		if t.S.W == 32 {
			return fmt.Sprintf("((_ to_fp 8 24) #x%08x)", uint32(t.Val))
		}
		return fmt.Sprintf("((_ to_fp 11 53) #x%016x)", t.Val)
	}
}

func ref(t *Term) string {
	switch t.Op {
	case OConst:
		return constStr(t)
	case OVar:
		return t.Name
	}
	return "t" + strconv.Itoa(t.ID)
}

func fpPrefix(s Sort) string {
	if s.W == 32 {
		return "8 24"
	}
	return "11 53"
}

// body prints the defining expression of a non-leaf term, referring to sub-terms by name.
func body(t *Term) string {
	var sb strings.Builder
	wr := func(head string) {
		sb.WriteByte('(')
		sb.WriteString(head)
		for _, a := range t.Args {
			sb.WriteByte(' ')
			sb.WriteString(ref(a))
		}
		sb.WriteByte(')')
	}
	switch t.Op {
	case OExtract:
		wr(fmt.Sprintf("(_ extract %d %d)", t.P1, t.P2))
	case OZExt:
		wr(fmt.Sprintf("(_ zero_extend %d)", t.S.W-t.Args[0].S.W))
	case OSExt:
		wr(fmt.Sprintf("(_ sign_extend %d)", t.S.W-t.Args[0].S.W))
	case OFAdd:
		wr("fp.add RNE")
	case OFSub:
		wr("fp.sub RNE")
	case OFMul:
		wr("fp.mul RNE")
	case OFDiv:
		wr("fp.div RNE")
	case OFCeil:
		wr("fp.roundToIntegral RTP")
	case OFFloor:
		wr("fp.roundToIntegral RTN")
	case OFTrunc:
		wr("fp.roundToIntegral RTZ")
	case OFRoundNA:
		wr("fp.roundToIntegral RNA")
	case OSToF:
		wr(fmt.Sprintf("(_ to_fp %s) RNE", fpPrefix(t.S)))
	case OUToF:
		wr(fmt.Sprintf("(_ to_fp_unsigned %s) RNE", fpPrefix(t.S)))
	case OFToS:
		wr(fmt.Sprintf("(_ fp.to_sbv %d) RTZ", t.S.W))
	case OFToU:
		wr(fmt.Sprintf("(_ fp.to_ubv %d) RTZ", t.S.W))
	case OFToF:
		wr(fmt.Sprintf("(_ to_fp %s) RNE", fpPrefix(t.S)))
	case OFFromBits:
		wr(fmt.Sprintf("(_ to_fp %s)", fpPrefix(t.S)))
	case OApp:
		wr(t.Name)
	default:
		n, ok := opNames[t.Op]
		if !ok {
			panic(fmt.Sprintf("no print for op %d", t.Op))
		}
		wr(n)
	}
	return sb.String()
}

// Inline prints a term fully expanded (for small samples in evidence).
func Inline(t *Term, depth int) string {
	if t.Op == OConst || t.Op == OVar {
		return ref(t)
	}
	if depth <= 0 {
		return "..."
	}
	var parts []string
	for _, a := range t.Args {
		parts = append(parts, Inline(a, depth-1))
	}
	switch t.Op {
	case OExtract:
		return fmt.Sprintf("((_ extract %d %d) %s)", t.P1, t.P2, parts[0])
	case OZExt:
		return fmt.Sprintf("((_ zero_extend %d) %s)", t.S.W-t.Args[0].S.W, parts[0])
	case OSExt:
		return fmt.Sprintf("((_ sign_extend %d) %s)", t.S.W-t.Args[0].S.W, parts[0])
	case OApp:
		return "(" + t.Name + " " + strings.Join(parts, " ") + ")"
	}
	n := opNames[t.Op]
	if n == "" {
		n = fmt.Sprintf("op%d", t.Op)
	}
	return "(" + n + " " + strings.Join(parts, " ") + ")"
}


type bitSeg struct {
	lo int
	t  *Term
}

// segments describes t as non-zero pieces at bit offsets with zeros elsewhere; ok=false if unknown.
func (c *Ctx) segments(t *Term, depth int) ([]bitSeg, bool) {
	if depth > 6 {
		return nil, false
	}
	switch t.Op {
	case OConst:
		if t.Val == 0 {
			return nil, true
		}
		return nil, false
	case OZExt:
		in, ok := c.segments(t.Args[0], depth+1)
		if ok {
			return in, true
		}
		return []bitSeg{{0, t.Args[0]}}, true
	case OConcat:
		var segs []bitSeg
		pos := t.S.W
		for _, p := range t.Args {
			pos -= p.S.W
			if p.IsConst() && p.Val == 0 {
				continue
			}
			segs = append(segs, bitSeg{pos, p})
		}
		return segs, true
	case OBvShl:
		if !t.Args[1].IsConst() {
			return nil, false
		}
		k := int(t.Args[1].Val)
		in, ok := c.segments(t.Args[0], depth+1)
		if !ok {
			return nil, false
		}
		var out []bitSeg
		for _, sg := range in {
			if sg.lo+k+sg.t.S.W > t.S.W {
				return nil, false
			}
			out = append(out, bitSeg{sg.lo + k, sg.t})
		}
		return out, true
	}
	return nil, false
}

func (c *Ctx) orAsConcat(a, b *Term) *Term {
	if noOrConcat {
		return nil
	}
	sa, ok := c.segments(a, 0)
	if !ok || len(sa) == 0 {
		return nil
	}
	sb, ok := c.segments(b, 0)
	if !ok || len(sb) == 0 {
		return nil
	}
	all := append(append([]bitSeg(nil), sa...), sb...)
	// sort by lo descending
	for i := 1; i < len(all); i++ {
		for j := i; j > 0 && all[j].lo > all[j-1].lo; j-- {
			all[j], all[j-1] = all[j-1], all[j]
		}
	}
	w := a.S.W
	var parts []*Term
	pos := w
	for _, sg := range all {
		top := sg.lo + sg.t.S.W
		if top > pos {
			return nil // overlap
		}
		if top < pos {
			gap := pos - top
			if gap > 64 {
				return nil
			}
			parts = append(parts, c.Const(BV(gap), 0))
		}
		parts = append(parts, sg.t)
		pos = sg.lo
	}
	if pos > 0 {
		if pos > 64 {
			return nil
		}
		parts = append(parts, c.Const(BV(pos), 0))
	}
	return c.Concat(parts...)
}


// constTree reports whether t is a constant or a linear ite-chain with constant leaves
// (ite(c1, k1, ite(c2, k2, ...)): the shape produced by table lookups with a symbolic index).
// General ite-trees are left alone: distributing operations over them duplicates sub-trees exponentially.
func constTree(t *Term, budget *int) bool {
	for {
		*budget--
		if *budget < 0 {
			return false
		}
		if t.Op == OConst {
			return true
		}
		if t.Op != OIte {
			return false
		}
		switch {
		case t.Args[1].Op == OConst:
			t = t.Args[2]
		case t.Args[2].Op == OConst:
			t = t.Args[1]
		default:
			return false
		}
	}
}

var noConstTree = os.Getenv("GOSMT_NO_CONSTTREE") != ""
var noOrConcat = os.Getenv("GOSMT_NO_ORCONCAT") != ""

func isConstTree(t *Term) bool {
	if t.Op != OIte || noConstTree {
		return false
	}
	b := 300
	return constTree(t, &b)
}

// mapLeaves applies f to the constant leaves of an ite-tree.
func (c *Ctx) mapLeaves(t *Term, f func(*Term) *Term) *Term {
	if t.Op == OConst {
		return f(t)
	}
	return c.Ite(t.Args[0], c.mapLeaves(t.Args[1], f), c.mapLeaves(t.Args[2], f))
}
