package main

import (
	"fmt"
	"go/constant"
	"go/types"
	"math"

	"golang.org/x/tools/go/ssa"
)

// Value is one of: *Term, *StructV, *ArrayV, PtrV, SliceV, StringV, IfaceV, MapV, FuncV, TupleV, IterV.
type Value interface{}

type StructV struct{ F []Value }
type ArrayV struct{ E []Value }

type PathEl struct {
	I   int
	Sym *Term // symbolic index (BV64) when non-nil; valid range [Lo,Hi)
	Lo  int
	Hi  int
}

type PtrV struct {
	Obj  int // 0 = nil
	Path []PathEl
}

type SliceV struct {
	Obj  int // 0 = nil slice
	Path []PathEl
	Off  int
	Len  int
	Cap  int
}

type StringV struct{ B []*Term }

type IfaceV struct {
	T types.Type // nil = nil interface
	V Value
}

type MapV struct{ Obj int }

type FuncV struct {
	Fn   *ssa.Function
	Bind []Value
}

type TupleV []Value

type IterV struct{ Obj int }

// heap object kinds that are not plain values
type MapObj struct {
	Keys    []Value
	Vals    []Value
	Present []*Term
}

type IterObj struct {
	Keys []Value
	Vals []Value
	Pos  int
	IsStr bool
}

func isSigned(t types.Type) bool {
	b, ok := t.Underlying().(*types.Basic)
	if !ok {
		return false
	}
	return b.Info()&types.IsInteger != 0 && b.Info()&types.IsUnsigned == 0
}

func sortOfBasic(b *types.Basic) (Sort, bool) {
	switch b.Kind() {
	case types.Bool, types.UntypedBool:
		return SBool, true
	case types.Int8, types.Uint8:
		return BV(8), true
	case types.Int16, types.Uint16:
		return BV(16), true
	case types.Int32, types.Uint32, types.UntypedRune:
		return BV(32), true
	case types.Int64, types.Uint64, types.Int, types.Uint, types.Uintptr, types.UntypedInt:
		return BV(64), true
	case types.Float32:
		return FP(32), true
	case types.Float64, types.UntypedFloat:
		return FP(64), true
	}
	return Sort{}, false
}

func sortOf(t types.Type) (Sort, bool) {
	b, ok := t.Underlying().(*types.Basic)
	if !ok {
		return Sort{}, false
	}
	return sortOfBasic(b)
}

func (ex *Exec) zero(t types.Type) Value {
	c := ex.ctx
	switch u := t.Underlying().(type) {
	case *types.Basic:
		if u.Info()&types.IsString != 0 {
			return StringV{}
		}
		if u.Kind() == types.UnsafePointer {
			return PtrV{}
		}
		if u.Kind() == types.UntypedNil {
			return PtrV{}
		}
		s, ok := sortOfBasic(u)
		if !ok {
			throwf("zero: unsupported basic type %v", t)
		}
		return c.Const(s, 0)
	case *types.Pointer:
		return PtrV{}
	case *types.Slice:
		return SliceV{}
	case *types.Map:
		return MapV{}
	case *types.Signature:
		return FuncV{}
	case *types.Interface:
		return IfaceV{}
	case *types.Struct:
		f := make([]Value, u.NumFields())
		for i := range f {
			f[i] = ex.zero(u.Field(i).Type())
		}
		return &StructV{F: f}
	case *types.Array:
		n := int(u.Len())
		e := make([]Value, n)
		if n > 0 {
			z := ex.zero(u.Elem())
			for i := range e {
				e[i] = z // immutable values may be shared
			}
		}
		return &ArrayV{E: e}
	case *types.Tuple:
		tv := make(TupleV, u.Len())
		for i := range tv {
			tv[i] = ex.zero(u.At(i).Type())
		}
		return tv
	case *types.Chan:
		return PtrV{}
	}
	throwf("zero: unsupported type %v", t)
	return nil
}

func (ex *Exec) constValue(k *ssa.Const) Value {
	c := ex.ctx
	t := k.Type()
	if k.Value == nil {
		return ex.zero(t)
	}
	switch u := t.Underlying().(type) {
	case *types.Basic:
		switch {
		case u.Info()&types.IsString != 0:
			return ex.strConst(constant.StringVal(k.Value))
		case u.Info()&types.IsBoolean != 0:
			return c.Bool(constant.BoolVal(k.Value))
		case u.Info()&types.IsInteger != 0:
			s, _ := sortOfBasic(u)
			if u.Info()&types.IsUnsigned != 0 {
				v, _ := constant.Uint64Val(constant.ToInt(k.Value))
				return c.Const(s, v)
			}
			v, exact := constant.Int64Val(constant.ToInt(k.Value))
			if !exact {
				uv, _ := constant.Uint64Val(constant.ToInt(k.Value))
				return c.Const(s, uv)
			}
			return c.Const(s, uint64(v))
		case u.Info()&types.IsFloat != 0:
			f, _ := constant.Float64Val(k.Value)
			if u.Kind() == types.Float32 {
				f32, _ := constant.Float32Val(k.Value)
				return c.F32Const(f32)
			}
			return c.F64Const(f)
		}
	}
	throwf("const: unsupported constant %v of type %v", k, t)
	return nil
}

func (ex *Exec) strConst(s string) StringV {
	b := make([]*Term, len(s))
	for i := 0; i < len(s); i++ {
		b[i] = ex.ctx.BVConst(8, uint64(s[i]))
	}
	return StringV{B: b}
}

// concreteString returns the Go string if all bytes are constant.
func concreteString(s StringV) (string, bool) {
	b := make([]byte, len(s.B))
	for i, t := range s.B {
		if !t.IsConst() {
			return "", false
		}
		b[i] = byte(t.Val)
	}
	return string(b), true
}

func pathEq(a, b []PathEl) bool {
	if len(a) != len(b) {
		return false
	}
	for i := range a {
		if a[i].I != b[i].I || a[i].Sym != b[i].Sym {
			return false
		}
	}
	return true
}

// iteValue builds ite(c, a, b) structurally; ok=false when the shapes differ.
func (ex *Exec) iteValue(c *Term, a, b Value) (Value, bool) {
	if c.IsTrue() {
		return a, true
	}
	if c.IsFalse() {
		return b, true
	}
	switch x := a.(type) {
	case *Term:
		y, ok := b.(*Term)
		if !ok || x.S != y.S {
			return nil, false
		}
		return ex.ctx.Ite(c, x, y), true
	case *StructV:
		y, ok := b.(*StructV)
		if !ok || len(x.F) != len(y.F) {
			return nil, false
		}
		if x == y {
			return x, true
		}
		f := make([]Value, len(x.F))
		for i := range f {
			v, ok := ex.iteValue(c, x.F[i], y.F[i])
			if !ok {
				return nil, false
			}
			f[i] = v
		}
		return &StructV{F: f}, true
	case *ArrayV:
		y, ok := b.(*ArrayV)
		if !ok || len(x.E) != len(y.E) {
			return nil, false
		}
		if x == y {
			return x, true
		}
		e := make([]Value, len(x.E))
		for i := range e {
			v, ok := ex.iteValue(c, x.E[i], y.E[i])
			if !ok {
				return nil, false
			}
			e[i] = v
		}
		return &ArrayV{E: e}, true
	case PtrV:
		y, ok := b.(PtrV)
		if ok && x.Obj == y.Obj && pathEq(x.Path, y.Path) {
			return x, true
		}
		return nil, false
	case SliceV:
		y, ok := b.(SliceV)
		if ok && x.Obj == y.Obj && pathEq(x.Path, y.Path) && x.Off == y.Off && x.Len == y.Len && x.Cap == y.Cap {
			return x, true
		}
		return nil, false
	case MapV:
		y, ok := b.(MapV)
		if ok && x.Obj == y.Obj {
			return x, true
		}
		return nil, false
	case StringV:
		y, ok := b.(StringV)
		if !ok || len(x.B) != len(y.B) {
			return nil, false
		}
		r := make([]*Term, len(x.B))
		for i := range r {
			r[i] = ex.ctx.Ite(c, x.B[i], y.B[i])
		}
		return StringV{B: r}, true
	case IfaceV:
		y, ok := b.(IfaceV)
		if !ok {
			return nil, false
		}
		if x.T == nil && y.T == nil {
			return x, true
		}
		if x.T == nil || y.T == nil || !types.Identical(x.T, y.T) {
			return nil, false
		}
		v, ok := ex.iteValue(c, x.V, y.V)
		if !ok {
			return nil, false
		}
		return IfaceV{T: x.T, V: v}, true
	case FuncV:
		y, ok := b.(FuncV)
		if ok && x.Fn == y.Fn && len(x.Bind) == 0 && len(y.Bind) == 0 {
			return x, true
		}
		return nil, false
	case TupleV:
		y, ok := b.(TupleV)
		if !ok || len(x) != len(y) {
			return nil, false
		}
		r := make(TupleV, len(x))
		for i := range r {
			v, ok := ex.iteValue(c, x[i], y[i])
			if !ok {
				return nil, false
			}
			r[i] = v
		}
		return r, true
	}
	return nil, false
}

// eqValue returns a Bool term for a == b (Go comparison semantics for comparable values).
func (ex *Exec) eqValue(a, b Value) *Term {
	c := ex.ctx
	switch x := a.(type) {
	case *Term:
		y := b.(*Term)
		if x.S.K == KFP {
			return c.FCmp(OFEq, x, y)
		}
		return c.Eq(x, y)
	case *StructV:
		y := b.(*StructV)
		r := c.True
		for i := range x.F {
			r = c.And(r, ex.eqValue(x.F[i], y.F[i]))
		}
		return r
	case *ArrayV:
		y := b.(*ArrayV)
		r := c.True
		for i := range x.E {
			r = c.And(r, ex.eqValue(x.E[i], y.E[i]))
		}
		return r
	case PtrV:
		y := b.(PtrV)
		if x.Obj != y.Obj {
			return c.False
		}
		if x.Obj == 0 {
			return c.True
		}
		if len(x.Path) != len(y.Path) {
			return c.False
		}
		r := c.True
		for i := range x.Path {
			p, q := x.Path[i], y.Path[i]
			switch {
			case p.Sym == nil && q.Sym == nil:
				if p.I != q.I {
					return c.False
				}
			default:
				pt, qt := p.Sym, q.Sym
				if pt == nil {
					pt = c.BVConst(64, uint64(p.I))
				}
				if qt == nil {
					qt = c.BVConst(64, uint64(q.I))
				}
				r = c.And(r, c.Eq(pt, qt))
			}
		}
		return r
	case StringV:
		y := b.(StringV)
		if len(x.B) != len(y.B) {
			return c.False
		}
		r := c.True
		for i := range x.B {
			r = c.And(r, c.Eq(x.B[i], y.B[i]))
		}
		return r
	case IfaceV:
		y := b.(IfaceV)
		if x.T == nil || y.T == nil {
			return c.Bool(x.T == nil && y.T == nil)
		}
		if !types.Identical(x.T, y.T) {
			return c.False
		}
		return ex.eqValue(x.V, y.V)
	case MapV:
		y := b.(MapV)
		return c.Bool(x.Obj == y.Obj)
	case SliceV:
		y := b.(SliceV) // only comparison with nil is legal
		return c.Bool(x.Obj == 0 && y.Obj == 0)
	case FuncV:
		y := b.(FuncV)
		return c.Bool(x.Fn == nil && y.Fn == nil)
	}
	throwf("eqValue: unsupported %T", a)
	return nil
}

func showValue(v Value) string {
	switch x := v.(type) {
	case *Term:
		return Inline(x, 3)
	case nil:
		return "<nil>"
	}
	return fmt.Sprintf("%T%v", v, v)
}

var _ = math.Abs
