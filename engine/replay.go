package main

import (
	"bufio"
	"bytes"
	"encoding/json"
	"fmt"
	"go/types"
	"os"
	"os/exec"
	"path/filepath"
	"sort"
	"strings"
	"sync"

	"golang.org/x/tools/go/ssa"
)

type ReplayOut struct {
	Index   int      `json:"index"`
	Result  string   `json:"result"` // ok | fail | panic | assume | missing
	Label   string   `json:"label"`
	Reached []string `json:"reached"`
	Known   []string `json:"known"`
}

func keyForPkgPath(p string) string {
	for k, s := range pkgTable {
		if s.importPath() == p {
			return k
		}
	}
	return ""
}

func genDispatch(pkgName string, p *ssa.Package) string {
	var names []string
	for n, m := range p.Members {
		if f, ok := m.(*ssa.Function); ok && strings.HasPrefix(n, "Verif") && f.Signature.Recv() == nil {
			names = append(names, n)
		}
	}
	sort.Strings(names)
	var sb strings.Builder
	fmt.Fprintf(&sb, "package %s\n\nimport \"testing\"\n\nvar verifDispatch = map[string]func(a []int){\n", pkgName)
	for _, n := range names {
		f := p.Func(n)
		var args []string
		ok := true
		for i := 0; i < f.Signature.Params().Len(); i++ {
			t := f.Signature.Params().At(i).Type()
			b, isB := t.Underlying().(*types.Basic)
			switch {
			case isB && b.Kind() == types.Int:
				args = append(args, fmt.Sprintf("a[%d]", i))
			case isB && b.Kind() == types.Bool:
				args = append(args, fmt.Sprintf("a[%d] != 0", i))
			default:
				ok = false
			}
		}
		if !ok {
			continue
		}
		fmt.Fprintf(&sb, "\t%q: func(a []int) { %s(%s) },\n", n, n, strings.Join(args, ", "))
	}
	sb.WriteString("}\n\nfunc TestVerifReplay(t *testing.T) { verifRunReplay(t, verifDispatch) }\n")
	return sb.String()
}

// nativeReplay runs the given cases against the natively compiled library (go test -overlay).
func nativeReplay(eng *Engine, cases []Finding) ([]ReplayOut, error) {
	outs := make([]ReplayOut, len(cases))
	for i := range outs {
		outs[i] = ReplayOut{Index: i, Result: "missing"}
	}
	byKey := map[string][]int{}
	for i, c := range cases {
		k := keyForPkgPath(c.Pkg)
		if k == "" {
			return nil, fmt.Errorf("no package key for %s", c.Pkg)
		}
		byKey[k] = append(byKey[k], i)
	}
	for key, idxs := range byKey {
		spec := pkgTable[key]
		tmp, err := os.MkdirTemp("", "gosmt-replay-")
		if err != nil {
			return nil, err
		}
		defer os.RemoveAll(tmp)
		ov, err := harnessOverlay(key, true)
		if err != nil {
			return nil, err
		}
		dir := filepath.Join(repoDir, spec.Dir)
		ov[filepath.Join(dir, "zz_verif_replay_test.go")] = []byte(genDispatch(spec.Name, eng.pkgs[key]))
		repl := map[string]string{}
		n := 0
		for p, content := range ov {
			f := filepath.Join(tmp, fmt.Sprintf("f%d_%s", n, filepath.Base(p)))
			n++
			if err := os.WriteFile(f, content, 0o644); err != nil {
				return nil, err
			}
			repl[p] = f
		}
		// hide the package's own tests (faster build, no dependency on test-only modules)
		tests, _ := filepath.Glob(filepath.Join(dir, "*_test.go"))
		for _, t := range tests {
			repl[t] = ""
		}
		ovb, _ := json.Marshal(map[string]interface{}{"Replace": repl})
		ovf := filepath.Join(tmp, "overlay.json")
		os.WriteFile(ovf, ovb, 0o644)
		var sub []Finding
		for _, i := range idxs {
			sub = append(sub, cases[i])
		}
		cb, _ := json.Marshal(sub)
		cf := filepath.Join(tmp, "cases.json")
		os.WriteFile(cf, cb, 0o644)
		// one test binary per package, one process per case: a case must not see the package-level state (caches,
		// pools) another case left behind
		bin := filepath.Join(tmp, "replay.test")
		build := exec.Command("go", "test", "-c", "-vet=off", "-o", bin, "-overlay", ovf, spec.importPath())
		build.Dir = repoDir
		build.Env = goEnv()
		if bout, berr := build.CombinedOutput(); berr != nil {
			tail := string(bout)
			if len(tail) > 3000 {
				tail = tail[len(tail)-3000:]
			}
			return outs, fmt.Errorf("replay build of package %s failed: %v: %s", key, berr, tail)
		}
		got := 0
		var out []byte
		err = nil
		type res struct {
			o  ReplayOut
			ok bool
			b  []byte
			e  error
		}
		results := make([]res, len(idxs))
		sem := make(chan struct{}, 8)
		var wg sync.WaitGroup
		for k := range idxs {
			wg.Add(1)
			sem <- struct{}{}
			go func(k int) {
				defer wg.Done()
				defer func() { <-sem }()
				cmd := exec.Command(bin, "-test.run", "^TestVerifReplay$", "-test.v", "-test.timeout", "300s")
				cmd.Dir = dir
				cmd.Env = append(goEnv(), "VERIF_REPLAY_FILE="+cf, fmt.Sprintf("VERIF_REPLAY_INDEX=%d", k))
				o, e := cmd.CombinedOutput()
				results[k].b, results[k].e = o, e
				sc := bufio.NewScanner(bytes.NewReader(o))
				sc.Buffer(make([]byte, 1<<20), 1<<24)
				for sc.Scan() {
					l := sc.Text()
					if j := strings.Index(l, "VERIF-OUT "); j >= 0 {
						var ro ReplayOut
						if json.Unmarshal([]byte(l[j+10:]), &ro) == nil && ro.Index == k {
							results[k].o, results[k].ok = ro, true
						}
					}
				}
			}(k)
		}
		wg.Wait()
		for k, r := range results {
			if r.ok {
				gi := idxs[k]
				r.o.Index = gi
				outs[gi] = r.o
				got++
			} else {
				out, err = r.b, r.e
			}
		}
		if got < len(idxs) {
			tail := string(out)
			if len(tail) > 3000 {
				tail = tail[len(tail)-3000:]
			}
			return outs, fmt.Errorf("replay of package %s produced %d of %d results (err=%v): %s", key, got, len(idxs), err, tail)
		}
	}
	return outs, nil
}
