package main

import (
	"fmt"
	"sync"
	"sync/atomic"

	"golang.org/x/tools/go/ssa"
)

const chunkSize = 128

type chunk struct {
	owner uint64
	v     [chunkSize]Value
}

type deferred struct {
	fn   FuncV
	args []Value
}

type Frame struct {
	owner    uint64
	fn       *ssa.Function
	info     *fnInfo
	regs     []Value
	bind     []Value
	block    *ssa.BasicBlock
	prev     *ssa.BasicBlock
	ip       int
	defers   []deferred
	isDefer  bool    // call started by RunDefers: result discarded, caller ip not advanced
	visits   []int32 // per-block visit counters (unwinding assertion)
	deferIdx int
	isPre    bool // frame of a pre harness of a history item
}

type b64Pair struct {
	chars []*Term
	bytes []*Term
	flt   *Term
	rec   []*Term
}

type nondetVar struct {
	Name string // harness-given name
	T    *Term
}

type State struct {
	id       uint64
	frames   []*Frame
	chunks   []*chunk
	nobj     int
	globals  map[*ssa.Global]int
	globOwn  bool
	pc       []*Term
	binds    map[*Term]uint64
	nondets  []nondetVar
	steps    int
	reached  []string
	lockDepth int
	ufApps   []*Term
	b64      []b64Pair
	globalOf map[int]string // after init: heap objects reachable from package-level variables -> variable name
	gwrites  map[string]bool // package-level variables (or objects reachable from them) written after init
	watched  map[int]bool // map objects whose accesses are checked against the lock-state counters
	facts    map[*Term]bool // Bool terms decided on this path (used to fold map-key comparisons)
}

var stateIDs uint64

func newID() uint64 { return atomic.AddUint64(&stateIDs, 1) }

func newState() *State {
	st := &State{id: newID(), globals: map[*ssa.Global]int{}, globOwn: true, binds: map[*Term]uint64{}}
	st.alloc(nil) // object 0 = nil
	return st
}

func (st *State) fork() *State {
	n := &State{}
	*n = *st
	n.id = newID()
	st.id = newID()
	n.frames = append([]*Frame(nil), st.frames...)
	n.chunks = append([]*chunk(nil), st.chunks...)
	n.pc = append([]*Term(nil), st.pc...)
	n.nondets = append([]nondetVar(nil), st.nondets...)
	n.reached = append([]string(nil), st.reached...)
	n.ufApps = append([]*Term(nil), st.ufApps...)
	n.b64 = append([]b64Pair(nil), st.b64...)
	n.binds = make(map[*Term]uint64, len(st.binds))
	for k, v := range st.binds {
		n.binds[k] = v
	}
	if len(st.facts) > 0 {
		n.facts = make(map[*Term]bool, len(st.facts))
		for k, v := range st.facts {
			n.facts[k] = v
		}
	}
	n.globOwn = false
	st.globOwn = false
	return n
}

func (st *State) alloc(v Value) int {
	id := st.nobj
	st.nobj++
	ci := id / chunkSize
	if ci >= len(st.chunks) {
		st.chunks = append(st.chunks, &chunk{owner: st.id})
	}
	st.hset(id, v)
	return id
}

func (st *State) hget(id int) Value {
	return st.chunks[id/chunkSize].v[id%chunkSize]
}

func (st *State) hset(id int, v Value) {
	ci := id / chunkSize
	ch := st.chunks[ci]
	if ch.owner != st.id {
		n := &chunk{owner: st.id, v: ch.v}
		st.chunks[ci] = n
		ch = n
	}
	ch.v[id%chunkSize] = v
	if st.globalOf != nil {
		if name, ok := st.globalOf[id]; ok && !st.gwrites[name] {
			// copy on write: the set is shared between forks
			n := make(map[string]bool, len(st.gwrites)+1)
			for k := range st.gwrites {
				n[k] = true
			}
			n[name] = true
			st.gwrites = n
		}
	}
}

func (st *State) top() *Frame {
	i := len(st.frames) - 1
	f := st.frames[i]
	if f.owner != st.id {
		n := &Frame{}
		*n = *f
		n.owner = st.id
		n.regs = append([]Value(nil), f.regs...)
		n.defers = append([]deferred(nil), f.defers...)
		n.visits = append([]int32(nil), f.visits...)
		st.frames[i] = n
		f = n
	}
	return f
}

func (st *State) globalObj(ex *Exec, g *ssa.Global) int {
	if id, ok := st.globals[g]; ok {
		return id
	}
	if !st.globOwn {
		m := make(map[*ssa.Global]int, len(st.globals)+1)
		for k, v := range st.globals {
			m[k] = v
		}
		st.globals = m
		st.globOwn = true
	}
	id := st.alloc(ex.zero(deref(g.Type())))
	st.globals[g] = id
	return id
}

// ---------- per-function register numbering (shared between workers) ----------

type fnInfo struct {
	idx   map[ssa.Value]int
	nregs int
}

var fnInfos sync.Map

func infoFor(fn *ssa.Function) *fnInfo {
	if v, ok := fnInfos.Load(fn); ok {
		return v.(*fnInfo)
	}
	fi := &fnInfo{idx: map[ssa.Value]int{}}
	for _, p := range fn.Params {
		fi.idx[p] = fi.nregs
		fi.nregs++
	}
	for _, b := range fn.Blocks {
		for _, in := range b.Instrs {
			if v, ok := in.(ssa.Value); ok {
				fi.idx[v] = fi.nregs
				fi.nregs++
			}
		}
	}
	v, _ := fnInfos.LoadOrStore(fn, fi)
	return v.(*fnInfo)
}

// ---------- control-flow panics used inside the executor ----------

type engineErr struct{ msg string }
type pathEnd struct{ why string }
type needFork struct{ t *Term }

type forkCase struct {
	cond   *Term
	bindT  *Term
	bindV  uint64
	falses []*Term
	trues  []*Term
}
type needForkCases struct{ cases []forkCase }

func throwf(format string, a ...interface{}) {
	panic(engineErr{fmt.Sprintf(format, a...)})
}
