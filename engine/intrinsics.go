package main

import (
	"fmt"
	"math/big"
	"sort"
	"go/types"
	"strings"
	"time"

	"golang.org/x/tools/go/ssa"
)

type intrinsicFn func(ex *Exec, st *State, fn *ssa.Function, args []Value) Value

var intrinsics map[string]intrinsicFn

func intrinsicKey(fn *ssa.Function) string {
	if fn.Pkg != nil && fn.Blocks == nil && strings.HasPrefix(fn.Name(), "verif") && fn.Signature.Recv() == nil {
		n := fn.Name()
		switch {
		case strings.HasPrefix(n, "verifNondet"):
			return "verif:nondet"
		case strings.HasPrefix(n, "verifIte"):
			return "verif:ite"
		}
		return "verif:" + n
	}
	return fn.String()
}

func argString(v Value) string {
	s, ok := v.(StringV)
	if !ok {
		throwf("string argument expected, got %T", v)
	}
	g, ok := concreteString(s)
	if !ok {
		throwf("concrete string argument expected")
	}
	return g
}

func sanitize(s string) string {
	var sb strings.Builder
	for _, ch := range s {
		if (ch >= 'a' && ch <= 'z') || (ch >= 'A' && ch <= 'Z') || (ch >= '0' && ch <= '9') || ch == '_' {
			sb.WriteRune(ch)
		} else {
			sb.WriteByte('_')
		}
	}
	return sb.String()
}

func (ex *Exec) newNondet(st *State, name string, s Sort) *Term {
	k := len(st.nondets)
	tag := "b"
	w := s.W
	if s.K == KBV {
		tag = "u"
	}
	v := ex.ctx.Var(fmt.Sprintf("v%d_%s%d_%s", k, tag, w, sanitize(name)), s)
	st.nondets = append(st.nondets, nondetVar{Name: name, T: v})
	return v
}

func (ex *Exec) bytesOfSlice(st *State, v Value) []*Term {
	s := v.(SliceV)
	el := ex.sliceElems(st, s)
	out := make([]*Term, len(el))
	for i, e := range el {
		out[i] = e.(*Term)
	}
	return out
}

func (ex *Exec) bytesOfArray(v Value) []*Term {
	a := v.(*ArrayV)
	out := make([]*Term, len(a.E))
	for i, e := range a.E {
		out[i] = e.(*Term)
	}
	return out
}

func (ex *Exec) concatBytes(bs []*Term) *Term {
	return ex.ctx.Concat(bs...)
}

func (ex *Exec) splitBytes(t *Term) *ArrayV {
	n := t.S.W / 8
	e := make([]Value, n)
	for i := 0; i < n; i++ {
		hi := t.S.W - 1 - 8*i
		e[i] = ex.ctx.Extract(t, hi, hi-7)
	}
	return &ArrayV{E: e}
}

func (ex *Exec) aes(st *State, enc bool, key []*Term, in []*Term) Value {
	c := ex.ctx
	if len(key) != 16 && len(key) != 24 && len(key) != 32 {
		throwf("verifAES: key length %d", len(key))
	}
	if len(in) != 16 {
		throwf("verifAES: block length %d", len(in))
	}
	k := ex.concatBytes(key)
	x := ex.concatBytes(in)
	en := fmt.Sprintf("AES%d_E", 8*len(key))
	dn := fmt.Sprintf("AES%d_D", 8*len(key))
	f, g := en, dn
	if !enc {
		f, g = dn, en
	}
	// inverse law applied syntactically: f(k, g(k, x')) = x'
	if x.Op == OApp && x.Name == g && x.Args[0] == k {
		return ex.splitBytes(x.Args[1])
	}
	y := ex.ufApp(st, f, BV(128), k, x)
	if !ex.aesApps[y] {
		ex.aesApps[y] = true
		// inverse axiom instantiated for this application: g(k, f(k,x)) = x
		c.Axioms = append(c.Axioms, c.Eq(c.App(g, BV(128), k, y), x))
	}
	return ex.splitBytes(y)
}

func init() {
	intrinsics = map[string]intrinsicFn{
		"verif:nondet": func(ex *Exec, st *State, fn *ssa.Function, args []Value) Value {
			name := argString(args[0])
			rt := fn.Signature.Results().At(0).Type()
			s, ok := sortOf(rt)
			if !ok {
				throwf("nondet of unsupported type %v", rt)
			}
			if s.K == KFP {
				b := ex.newNondet(st, name, BV(s.W))
				return ex.ctx.FFromBits(b)
			}
			return ex.newNondet(st, name, s)
		},
		"verif:ite": func(ex *Exec, st *State, fn *ssa.Function, args []Value) Value {
			r, ok := ex.iteValue(args[0].(*Term), args[1], args[2])
			if !ok {
				throwf("verifIte: values not mergeable")
			}
			return r
		},
		"verif:verifAnd": func(ex *Exec, st *State, fn *ssa.Function, args []Value) Value {
			return ex.ctx.And(args[0].(*Term), args[1].(*Term))
		},
		"verif:verifOr": func(ex *Exec, st *State, fn *ssa.Function, args []Value) Value {
			return ex.ctx.Or(args[0].(*Term), args[1].(*Term))
		},
		"verif:verifImplies": func(ex *Exec, st *State, fn *ssa.Function, args []Value) Value {
			return ex.ctx.Implies(args[0].(*Term), args[1].(*Term))
		},
		"verif:verifBytesEq": func(ex *Exec, st *State, fn *ssa.Function, args []Value) Value {
			a := ex.bytesOfSlice(st, args[0])
			b := ex.bytesOfSlice(st, args[1])
			if len(a) != len(b) {
				return ex.ctx.False
			}
			r := ex.ctx.True
			for i := range a {
				r = ex.ctx.And(r, ex.ctx.Eq(a[i], b[i]))
			}
			return r
		},
		"verif:verifAssume": func(ex *Exec, st *State, fn *ssa.Function, args []Value) Value {
			ex.assume(st, args[0].(*Term))
			return nil
		},
		"verif:verifAssert": func(ex *Exec, st *State, fn *ssa.Function, args []Value) Value {
			ex.oblige(st, args[0].(*Term), "assert", argString(args[1]), "")
			return nil
		},
		// verifAssertKnown(id, region, c, label): outside the region c must hold; inside it a failure is the known finding id.
		"verif:verifAssertKnown": func(ex *Exec, st *State, fn *ssa.Function, args []Value) Value {
			id := argString(args[0])
			region := args[1].(*Term)
			cond := args[2].(*Term)
			label := argString(args[3])
			ex.oblige(st, ex.ctx.Or(region, cond), "assert", label, "")
			ex.oblige(st, ex.ctx.Or(ex.ctx.Not(region), cond), "assert", label, id)
			return nil
		},
		"verif:verifReach": func(ex *Exec, st *State, fn *ssa.Function, args []Value) Value {
			label := argString(args[0])
			st.reached = append(st.reached, label)
			if ex.inPre(st) {
				return nil // only the main harness of a history item counts (vacuity, witness)
			}
			ex.res.Reached[label]++
			if ex.res.Witness == nil {
				res, vals := ex.modelFor(st, nil)
				if res == "sat" {
					ex.res.Witness = &Finding{Pre: ex.pre, Harness: ex.harness.Name(), Pkg: ex.res.Pkg, Shape: ex.shape, Kind: "reach", Label: label, Values: vals, MapDesc: ex.cfg.MapDesc}
				}
			}
			return nil
		},
		"verif:verifAESEnc": func(ex *Exec, st *State, fn *ssa.Function, args []Value) Value {
			return ex.aes(st, true, ex.bytesOfSlice(st, args[0]), ex.bytesOfArray(args[1]))
		},
		"verif:verifAESDec": func(ex *Exec, st *State, fn *ssa.Function, args []Value) Value {
			return ex.aes(st, false, ex.bytesOfSlice(st, args[0]), ex.bytesOfArray(args[1]))
		},
		"verif:verifCMAC": func(ex *Exec, st *State, fn *ssa.Function, args []Value) Value {
			key := ex.bytesOfSlice(st, args[0])
			msg := ex.bytesOfSlice(st, args[1])
			if len(key) != 16 {
				throwf("verifCMAC: key length %d", len(key))
			}
			k := ex.concatBytes(key)
			var y *Term
			if len(msg) == 0 {
				y = ex.ufApp(st, "CMAC_0", BV(128), k)
			} else {
				y = ex.ufApp(st, fmt.Sprintf("CMAC_%d", len(msg)), BV(128), k, ex.concatBytes(msg))
			}
			return ex.splitBytes(y)
		},
		"verif:verifHavoc": func(ex *Exec, st *State, fn *ssa.Function, args []Value) Value {
			s := args[0].(SliceV)
			vals := make([]Value, s.Len)
			for i := range vals {
				vals[i] = ex.newNondet(st, "havoc", BV(8))
			}
			ex.sliceWrite(st, s, 0, vals)
			return nil
		},
		// base64 contract stub: Encode yields fresh characters remembered together with the bytes;
		// Lookup returns the bytes for exactly such a string.
		"verif:verifB64Encode": func(ex *Exec, st *State, fn *ssa.Function, args []Value) Value {
			src := ex.bytesOfSlice(st, args[0])
			n := (len(src) + 2) / 3 * 4
			chars := make([]*Term, n)
			for i := range chars {
				ex.b64seq++
				chars[i] = ex.ctx.Var(fmt.Sprintf("b64c%d", ex.b64seq), BV(8))
			}
			st.b64 = append(st.b64, b64Pair{chars: chars, bytes: src})
			return StringV{B: chars}
		},
		"verif:verifB64Lookup": func(ex *Exec, st *State, fn *ssa.Function, args []Value) Value {
			s := args[0].(StringV)
			for _, p := range st.b64 {
				if p.flt != nil || len(p.chars) != len(s.B) {
					continue
				}
				same := true
				for i := range s.B {
					if s.B[i] != p.chars[i] {
						same = false
						break
					}
				}
				if same {
					el := make([]Value, len(p.bytes))
					for i, b := range p.bytes {
						el[i] = b
					}
					return TupleV{ex.newSlice(st, el, len(el), ex.ctx.BVConst(8, 0)), ex.ctx.True}
				}
			}
			return TupleV{SliceV{}, ex.ctx.False}
		},
		"verif:verifFloatText": func(ex *Exec, st *State, fn *ssa.Function, args []Value) Value {
			f := args[0].(*Term)
			chars := make([]*Term, 8)
			for i := range chars {
				ex.b64seq++
				chars[i] = ex.ctx.Var(fmt.Sprintf("fltc%d", ex.b64seq), BV(8))
			}
			st.b64 = append(st.b64, b64Pair{chars: chars, flt: f})
			return StringV{B: chars}
		},
		"verif:verifFloatLookup": func(ex *Exec, st *State, fn *ssa.Function, args []Value) Value {
			s := args[0].(StringV)
			for _, p := range st.b64 {
				if p.flt == nil || len(p.chars) != len(s.B) {
					continue
				}
				same := true
				for i := range s.B {
					if s.B[i] != p.chars[i] {
						same = false
						break
					}
				}
				if same {
					return TupleV{p.flt, ex.ctx.True}
				}
			}
			return TupleV{ex.ctx.F64Const(0), ex.ctx.False}
		},
		// verifRecText(n, vals...): an opaque text of n fresh characters that stands for the record vals;
		// verifRecLookup(text, i) recovers field i from exactly that text (contract model of a formatter / parser pair).
		"verif:verifRecText": func(ex *Exec, st *State, fn *ssa.Function, args []Value) Value {
			n := int(ex.concretize(st, args[0].(*Term)))
			chars := make([]*Term, n)
			for i := range chars {
				ex.b64seq++
				chars[i] = ex.ctx.Var(fmt.Sprintf("txtc%d", ex.b64seq), BV(8))
			}
			var rec []*Term
			for _, v := range ex.sliceElems(st, args[1].(SliceV)) {
				rec = append(rec, v.(*Term))
			}
			st.b64 = append(st.b64, b64Pair{chars: chars, rec: rec})
			return StringV{B: chars}
		},
		"verif:verifRecLookup": func(ex *Exec, st *State, fn *ssa.Function, args []Value) Value {
			s := args[0].(StringV)
			i := int(ex.concretize(st, args[1].(*Term)))
			for _, p := range st.b64 {
				if p.rec == nil || len(p.chars) != len(s.B) {
					continue
				}
				same := true
				for k := range s.B {
					if s.B[k] != p.chars[k] {
						same = false
						break
					}
				}
				if same {
					return TupleV{p.rec[i], ex.ctx.True}
				}
			}
			return TupleV{ex.ctx.BVConst(64, 0), ex.ctx.False}
		},
		// verifNoGlobalWritesExcept("pkg.var,pkg.var2"): no package-level variable of the module (nor an object reachable
		// from one at the end of init) other than the listed ones has been written on this path since init.
		"verif:verifNoGlobalWritesExcept": func(ex *Exec, st *State, fn *ssa.Function, args []Value) Value {
			allowed := map[string]bool{}
			for _, n := range strings.Split(argString(args[0]), ",") {
				allowed[strings.TrimSpace(n)] = true
			}
			var bad []string
			for n := range st.gwrites {
				if !allowed[n] {
					bad = append(bad, n)
				}
			}
			sort.Strings(bad)
			ex.res.Obligations++
			if len(bad) == 0 {
				ex.res.Discharged++
				return nil
			}
			_, vals := ex.modelFor(st, nil)
			ex.record(st, "monitor", "package-level state written after init: "+strings.Join(bad, ", "), "", vals)
			return nil
		},
		"verif:verifWatchMap": func(ex *Exec, st *State, fn *ssa.Function, args []Value) Value {
			iv := args[0].(IfaceV)
			m, ok := iv.V.(MapV)
			if !ok {
				throwf("verifWatchMap: map expected")
			}
			w := map[int]bool{m.Obj: true}
			mo := ex.mapObj(st, m)
			for _, v := range mo.Vals {
				if inner, ok := v.(MapV); ok {
					w[inner.Obj] = true
				}
			}
			st.watched = w
			return nil
		},
		"verif:verifMapDesc": func(ex *Exec, st *State, fn *ssa.Function, args []Value) Value {
			return ex.ctx.Bool(ex.cfg.MapDesc)
		},
		"verif:verifSymbolic": func(ex *Exec, st *State, fn *ssa.Function, args []Value) Value {
			return ex.ctx.True
		},
		"crypto/internal/alias.AnyOverlap": func(ex *Exec, st *State, fn *ssa.Function, args []Value) Value {
			return ex.ctx.Bool(slicesOverlap(args[0].(SliceV), args[1].(SliceV), false))
		},
		"crypto/internal/alias.InexactOverlap": func(ex *Exec, st *State, fn *ssa.Function, args []Value) Value {
			return ex.ctx.Bool(slicesOverlap(args[0].(SliceV), args[1].(SliceV), true))
		},
		"crypto/subtle.XORBytes": func(ex *Exec, st *State, fn *ssa.Function, args []Value) Value {
			d := args[0].(SliceV)
			x := ex.bytesOfSlice(st, args[1])
			y := ex.bytesOfSlice(st, args[2])
			n := len(x)
			if len(y) < n {
				n = len(y)
			}
			if n == 0 {
				return ex.ctx.BVConst(64, 0)
			}
			if d.Len < n {
				_, vals := ex.modelFor(st, nil)
				ex.record(st, "panic", "subtle.XORBytes: dst too short", "", vals)
				panic(pathEnd{"xorbytes"})
			}
			out := make([]Value, n)
			for i := 0; i < n; i++ {
				out[i] = ex.ctx.BvBin(OBvXor, x[i], y[i])
			}
			ex.sliceWrite(st, d, 0, out)
			return ex.ctx.BVConst(64, uint64(n))
		},
		// sync/atomic on a single goroutine (the harnesses are sequential; DESIGN.md section 4): plain memory operations
		"sync/atomic.LoadUint32": atomicLoad, "sync/atomic.LoadInt32": atomicLoad, "sync/atomic.LoadUint64": atomicLoad, "sync/atomic.LoadInt64": atomicLoad,
		"sync/atomic.StoreUint32": atomicStore, "sync/atomic.StoreInt32": atomicStore, "sync/atomic.StoreUint64": atomicStore, "sync/atomic.StoreInt64": atomicStore,
		"sync/atomic.AddUint32": atomicAdd, "sync/atomic.AddInt32": atomicAdd, "sync/atomic.AddUint64": atomicAdd, "sync/atomic.AddInt64": atomicAdd,
		"sync/atomic.SwapUint32": atomicSwap, "sync/atomic.SwapInt32": atomicSwap, "sync/atomic.SwapUint64": atomicSwap, "sync/atomic.SwapInt64": atomicSwap,
		"sync/atomic.CompareAndSwapUint32": atomicCAS, "sync/atomic.CompareAndSwapInt32": atomicCAS, "sync/atomic.CompareAndSwapUint64": atomicCAS, "sync/atomic.CompareAndSwapInt64": atomicCAS,
		"math.Ceil":  fpUn(OFCeil),
		"math.Floor": fpUn(OFFloor),
		"math.Trunc": fpUn(OFTrunc),
		"math.Round": fpUn(OFRoundNA),
		"math.Abs":   fpUn(OFAbs),
		"math.Max": func(ex *Exec, st *State, fn *ssa.Function, args []Value) Value {
			return ex.ctx.FBin(OFMax, args[0].(*Term), args[1].(*Term))
		},
		"math.Min": func(ex *Exec, st *State, fn *ssa.Function, args []Value) Value {
			return ex.ctx.FBin(OFMin, args[0].(*Term), args[1].(*Term))
		},
		"math.IsNaN": func(ex *Exec, st *State, fn *ssa.Function, args []Value) Value {
			return ex.ctx.FIsNaN(args[0].(*Term))
		},
		// time.Time model: {wall: 0, ext: nanoseconds since the Unix epoch (UTC), loc: nil}; see DESIGN.md section 4.
		"(time.Time).Add": func(ex *Exec, st *State, fn *ssa.Function, args []Value) Value {
			return timeFromNs(ex, ex.ctx.BvBin(OBvAdd, timeNs(args[0]), args[1].(*Term)))
		},
		"(time.Time).Sub": func(ex *Exec, st *State, fn *ssa.Function, args []Value) Value {
			return ex.ctx.BvBin(OBvSub, timeNs(args[0]), timeNs(args[1]))
		},
		"(time.Time).Before": func(ex *Exec, st *State, fn *ssa.Function, args []Value) Value {
			return ex.ctx.BvCmp(OBvSLt, timeNs(args[0]), timeNs(args[1]))
		},
		"(time.Time).After": func(ex *Exec, st *State, fn *ssa.Function, args []Value) Value {
			return ex.ctx.BvCmp(OBvSLt, timeNs(args[1]), timeNs(args[0]))
		},
		"(time.Time).Equal": func(ex *Exec, st *State, fn *ssa.Function, args []Value) Value {
			return ex.ctx.Eq(timeNs(args[0]), timeNs(args[1]))
		},
		"(time.Time).UnixNano": func(ex *Exec, st *State, fn *ssa.Function, args []Value) Value {
			return timeNs(args[0])
		},
		// zone offset (seconds east of UTC) is kept in the otherwise unused wall field of the model
		"verif:verifTimeWithZone": func(ex *Exec, st *State, fn *ssa.Function, args []Value) Value {
			return &StructV{F: []Value{args[1].(*Term), timeNs(args[0]), PtrV{}}}
		},
		"verif:verifTimeZoneOffset": func(ex *Exec, st *State, fn *ssa.Function, args []Value) Value {
			return args[0].(*StructV).F[0]
		},
		"(time.Time).UTC": func(ex *Exec, st *State, fn *ssa.Function, args []Value) Value {
			return timeFromNs(ex, timeNs(args[0]))
		},
		"(time.Time).Unix": func(ex *Exec, st *State, fn *ssa.Function, args []Value) Value {
			c := ex.ctx
			ns := timeNs(args[0])
			// floor division (instants before 1970 are negative)
			k := c.BVConst(64, 1000000000)
			q := c.BvBin(OBvSDiv, ns, k)
			r := c.BvBin(OBvSRem, ns, k)
			return c.Ite(c.BvCmp(OBvSLt, r, c.BVConst(64, 0)), c.BvBin(OBvSub, q, c.BVConst(64, 1)), q)
		},
		"verif:verifTimeFromUnixNano": func(ex *Exec, st *State, fn *ssa.Function, args []Value) Value {
			return timeFromNs(ex, args[0].(*Term))
		},
		"verif:verifTimeUnixNano": func(ex *Exec, st *State, fn *ssa.Function, args []Value) Value {
			return timeNs(args[0])
		},
		"time.Date": func(ex *Exec, st *State, fn *ssa.Function, args []Value) Value {
			var a [7]int
			for i := 0; i < 7; i++ {
				t := args[i].(*Term)
				if !t.IsConst() {
					throwf("time.Date with symbolic argument")
				}
				a[i] = int(sext64(t.Val, t.S.W))
			}
			tm := time.Date(a[0], time.Month(a[1]), a[2], a[3], a[4], a[5], a[6], time.UTC)
			return timeFromNs(ex, ex.ctx.BVConst(64, uint64(tm.UnixNano())))
		},
	}
}

func fpUn(op Op) intrinsicFn {
	return func(ex *Exec, st *State, fn *ssa.Function, args []Value) Value {
		return ex.ctx.FUn(op, args[0].(*Term))
	}
}

var _ = types.Typ


// eqParts compares two terms, decomposing concatenations of equal shape into part-wise equalities.
func (ex *Exec) eqParts(a, b *Term) *Term {
	c := ex.ctx
	if a == b {
		return c.True
	}
	if a.Op == OConcat && b.Op == OConcat && len(a.Args) == len(b.Args) {
		same := true
		for i := range a.Args {
			if a.Args[i].S != b.Args[i].S {
				same = false
				break
			}
		}
		if same {
			r := c.True
			for i := range a.Args {
				r = c.And(r, c.Eq(a.Args[i], b.Args[i]))
				if r.IsFalse() {
					return r
				}
			}
			return r
		}
	}
	return c.Eq(a, b)
}

// ufApp creates an uninterpreted-function application; when the path condition already implies that
// the arguments equal those of an earlier application, the earlier result term is reused
// (congruence decided by a pure bit-vector query instead of being left to UF reasoning).
func (ex *Exec) ufApp(st *State, name string, ret Sort, args ...*Term) *Term {
	c := ex.ctx
	t := c.App(name, ret, args...)
	for _, prev := range st.ufApps {
		if prev == t {
			return t
		}
	}
	var over map[*Term]*big.Int
	for _, prev := range st.ufApps {
		if prev.Name != name || len(prev.Args) != len(args) {
			continue
		}
		eq := c.True
		for i := range args {
			eq = c.And(eq, ex.eqParts(args[i], prev.Args[i]))
			if eq.IsFalse() {
				break
			}
		}
		if eq.IsFalse() {
			continue
		}
		if eq.IsTrue() {
			return prev
		}
		// cheap filter: arguments that differ under a pseudo-random assignment are not equal for all inputs
		// (equalities that only hold under the path condition are then left to the solver's own UF reasoning)
		if over == nil {
			over = pcOverrides(st.pc, st.binds)
		}
		if !maybeEqual(args, prev.Args, over) {
			continue
		}
		res, _ := ex.sol.Check(c, append(append([]*Term(nil), st.pc...), c.Not(eq)), false)
		ex.res.UFCongruence++
		if res == "unsat" {
			return prev
		}
	}
	st.ufApps = append(st.ufApps, t)
	return t
}

var _ = big.NewInt


func timeNs(v Value) *Term {
	s, ok := v.(*StructV)
	if !ok || len(s.F) != 3 {
		throwf("time.Time value expected, got %T", v)
	}
	return s.F[1].(*Term)
}

func timeFromNs(ex *Exec, ns *Term) Value {
	return &StructV{F: []Value{ex.ctx.BVConst(64, 0), ns, PtrV{}}}
}


func slicesOverlap(a, b SliceV, inexact bool) bool {
	if a.Len == 0 || b.Len == 0 || a.Obj != b.Obj || !pathEq(a.Path, b.Path) {
		return false
	}
	if inexact && a.Off == b.Off {
		return false
	}
	return a.Off < b.Off+b.Len && b.Off < a.Off+a.Len
}

func atomicLoad(ex *Exec, st *State, fn *ssa.Function, args []Value) Value {
	return ex.load(st, args[0].(PtrV))
}

func atomicStore(ex *Exec, st *State, fn *ssa.Function, args []Value) Value {
	ex.store(st, args[0].(PtrV), args[1])
	return nil
}

func atomicAdd(ex *Exec, st *State, fn *ssa.Function, args []Value) Value {
	p := args[0].(PtrV)
	v := ex.ctx.BvBin(OBvAdd, ex.load(st, p).(*Term), args[1].(*Term))
	ex.store(st, p, v)
	return v
}

func atomicSwap(ex *Exec, st *State, fn *ssa.Function, args []Value) Value {
	p := args[0].(PtrV)
	old := ex.load(st, p)
	ex.store(st, p, args[1])
	return old
}

func atomicCAS(ex *Exec, st *State, fn *ssa.Function, args []Value) Value {
	p := args[0].(PtrV)
	cur := ex.load(st, p).(*Term)
	hit := ex.ctx.Eq(cur, args[1].(*Term))
	ex.store(st, p, ex.ctx.Ite(hit, args[2].(*Term), cur))
	return hit
}
