package main

import (
	"fmt"
	"go/types"
	"os"
	"path/filepath"
	"sort"
	"strings"
	"sync"

	"golang.org/x/tools/go/packages"
	"golang.org/x/tools/go/ssa"
	"golang.org/x/tools/go/ssa/ssautil"
)

const modulePath = "github.com/brocaar/lorawan"

var repoDir = "/repo"
var verifDir = "/verif"

type pkgSpec struct {
	Dir  string // relative to repo
	Name string // Go package name
}

var pkgTable = map[string]pkgSpec{
	"root":               {"", "lorawan"},
	"band":               {"band", "band"},
	"clocksync":          {"applayer/clocksync", "clocksync"},
	"multicastsetup":     {"applayer/multicastsetup", "multicastsetup"},
	"fragmentation":      {"applayer/fragmentation", "fragmentation"},
	"firmwaremanagement": {"applayer/firmwaremanagement", "firmwaremanagement"},
	"backend":            {"backend", "backend"},
	"joinserver":         {"backend/joinserver", "joinserver"},
	"gps":                {"gps", "gps"},
	"airtime":            {"airtime", "airtime"},
}

func (p pkgSpec) importPath() string {
	if p.Dir == "" {
		return modulePath
	}
	return modulePath + "/" + p.Dir
}

type Engine struct {
	prog    *ssa.Program
	pkgs    map[string]*ssa.Package // by pkg key
	sizes   types.Sizes
	buildMu sync.Mutex
	overlay map[string][]byte
}

// redirect table: callee full name -> stub function name in the harness package (rt_symbolic).
var redirectNames = map[string]string{
	"crypto/aes.NewCipher":                                "verifStubAESNewCipher",
	"github.com/jacobsa/crypto/cmac.New":                  "verifStubCMACNew",
	"fmt.Errorf":                                          "verifStubErrorf",
	"fmt.Sprintf":                                         "verifStubSprintf",
	"github.com/pkg/errors.New":                           "verifStubErrNew",
	"github.com/pkg/errors.Errorf":                        "verifStubErrorf",
	"github.com/pkg/errors.Wrap":                          "verifStubWrap",
	"github.com/pkg/errors.Wrapf":                         "verifStubWrapf",
	"github.com/pkg/errors.Cause":                         "verifStubCause",
	"sort.Ints":                                           "verifStubSortInts",
	"(*encoding/base64.Encoding).EncodeToString":          "verifStubB64Encode",
	"(*encoding/base64.Encoding).DecodeString":            "verifStubB64Decode",
	"(*sync.RWMutex).RLock":                               "verifStubRLock",
	"(*sync.RWMutex).RUnlock":                             "verifStubRUnlock",
	"(*sync.RWMutex).Lock":                                "verifStubLock",
	"(*sync.RWMutex).Unlock":                              "verifStubUnlock",
	"(*sync.Mutex).Lock":                                  "verifStubMutexLock",
	"(*sync.Mutex).Unlock":                                "verifStubMutexUnlock",
	"encoding/hex.EncodeToString":                         "verifStubHexEncode",
	"encoding/hex.DecodeString":                           "verifStubHexDecode",
	"strings.TrimPrefix":                                  "verifStubTrimPrefix",
	"bytes.Equal":                                         "verifStubBytesEqual",
	"encoding/json.Marshal":                               "verifStubJSONMarshal",
	"encoding/json.Unmarshal":                             "verifStubJSONUnmarshal",
	"(time.Time).Format":                                  "verifStubTimeFormat",
	"time.Parse":                                          "verifStubTimeParse",
	"io/ioutil.ReadAll":                                   "verifStubReadAll",
	"io.ReadAll":                                          "verifStubReadAll",
	"(*sync.Pool).Get":                                    "verifStubPoolGet",
	"(*sync.Map).Load":                                    "verifStubSyncMapLoad",
	"(*sync.Map).Store":                                   "verifStubSyncMapStore",
	"(*sync.Map).LoadOrStore":                             "verifStubSyncMapLoadOrStore",
	"(*sync.Map).Delete":                                  "verifStubSyncMapDelete",
	"(*sync.Pool).Put":                                    "verifStubPoolPut",
	"strconv.ParseFloat":                                  "verifStubParseFloat",
	"strconv.FormatFloat":                                 "verifStubFormatFloat",
	"strconv.AppendFloat":                                 "verifStubAppendFloat",
}

var initAllow = map[string]bool{
	"github.com/NickBall/go-aes-key-wrap": true,
	"encoding/hex":                        true,
}

func (e *Engine) initAllowed(path string) bool {
	return strings.HasPrefix(path, modulePath) || initAllow[path]
}

func (e *Engine) isNoop(fn *ssa.Function) bool {
	if fn.Pkg == nil {
		// methods of logrus types have Pkg set; synthetic wrappers do not
		if fn.Signature.Recv() != nil {
			s := fn.String()
			return strings.Contains(s, "github.com/sirupsen/logrus")
		}
		return false
	}
	p := fn.Pkg.Pkg.Path()
	if p == "github.com/sirupsen/logrus" || p == "log" {
		return true
	}
	if p == "fmt" && strings.HasPrefix(fn.Name(), "Print") {
		return true
	}
	return false
}

func (ex *Exec) redirectFor(name string) (*ssa.Function, bool) {
	stub, ok := redirectNames[name]
	if !ok || stub == "" {
		return nil, false
	}
	f := ex.harness.Pkg.Func(stub)
	if f == nil {
		return nil, false
	}
	return f, true
}

func (e *Engine) redirect(name string) (*ssa.Function, bool) { return nil, false }

func (e *Engine) buildPkg(p *ssa.Package) {
	p.Build()
}

// harnessFiles returns overlay path -> content for one package key.
func harnessOverlay(key string, native bool) (map[string][]byte, error) {
	spec, ok := pkgTable[key]
	if !ok {
		return nil, fmt.Errorf("unknown package key %q", key)
	}
	ov := map[string][]byte{}
	dir := filepath.Join(repoDir, spec.Dir)
	hdir := filepath.Join(verifDir, "harness", key)
	files, _ := filepath.Glob(filepath.Join(hdir, "*.go"))
	sort.Strings(files)
	for _, f := range files {
		b, err := os.ReadFile(f)
		if err != nil {
			return nil, err
		}
		ov[filepath.Join(dir, "zz_verif_"+filepath.Base(f))] = b
	}
	rt := "rt_symbolic.go.in"
	if native {
		rt = "rt_native.go.in"
	}
	b, err := os.ReadFile(filepath.Join(verifDir, "harness", "rt", rt))
	if err != nil {
		return nil, err
	}
	b = []byte(strings.Replace(string(b), "package VERIFPKG", "package "+spec.Name, 1))
	ov[filepath.Join(dir, "zz_verif_rt.go")] = b
	cb, err := os.ReadFile(filepath.Join(verifDir, "harness", "rt", "rt_common.go.in"))
	if err != nil {
		return nil, err
	}
	ov[filepath.Join(dir, "zz_verif_rtcommon.go")] = []byte(strings.Replace(string(cb), "package VERIFPKG", "package "+spec.Name, 1))
	return ov, nil
}

func goEnv() []string {
	env := os.Environ()
	env = append(env, "GOFLAGS=-mod=mod", "GOPROXY=off", "GOSUMDB=off", "GOTOOLCHAIN=local", "CGO_ENABLED=0")
	return env
}

func LoadEngine(keys []string) (*Engine, error) {
	e := &Engine{pkgs: map[string]*ssa.Package{}, overlay: map[string][]byte{}}
	var patterns []string
	for _, k := range keys {
		ov, err := harnessOverlay(k, false)
		if err != nil {
			return nil, err
		}
		for p, c := range ov {
			e.overlay[p] = c
		}
		patterns = append(patterns, pkgTable[k].importPath())
	}
	cfg := &packages.Config{
		Mode:    packages.NeedName | packages.NeedFiles | packages.NeedCompiledGoFiles | packages.NeedImports | packages.NeedDeps | packages.NeedTypes | packages.NeedSyntax | packages.NeedTypesInfo | packages.NeedTypesSizes,
		Dir:     repoDir,
		Env:     goEnv(),
		Overlay: e.overlay,
	}
	pkgs, err := packages.Load(cfg, patterns...)
	if err != nil {
		return nil, err
	}
	var errs []string
	packages.Visit(pkgs, nil, func(p *packages.Package) {
		if strings.HasPrefix(p.PkgPath, modulePath) {
			for _, er := range p.Errors {
				errs = append(errs, er.Error())
			}
		}
	})
	if len(errs) > 0 {
		return nil, fmt.Errorf("load errors:\n%s", strings.Join(errs, "\n"))
	}
	prog, _ := ssautil.AllPackages(pkgs, ssa.InstantiateGenerics)
	e.prog = prog
	// build every package up front: lazy building from several workers races on fn.Blocks
	prog.Build()
	for _, k := range keys {
		ip := pkgTable[k].importPath()
		for _, p := range prog.AllPackages() {
			if p.Pkg.Path() == ip {
				e.pkgs[k] = p
			}
		}
		if e.pkgs[k] == nil {
			return nil, fmt.Errorf("package %s not loaded", ip)
		}
	}
	e.sizes = types.SizesFor("gc", "amd64")
	return e, nil
}
