package main

// Concrete evaluation of terms under a pseudo-random assignment of the variables. Used as a cheap filter
// before the solver is asked whether two uninterpreted-function argument tuples are equal: if the arguments
// evaluate differently under some assignment they are not equal for all inputs.

import (
	"hash/fnv"
	"math/big"
)

type evaluator struct {
	over map[*Term]*big.Int // values forced by the path condition (bool atoms, var == const)
	seed uint64
	memo map[*Term]*big.Int
	ok   bool
}

func newEvaluator(seed uint64) *evaluator {
	return &evaluator{seed: seed, memo: map[*Term]*big.Int{}, ok: true}
}

func hashToBig(seed uint64, name string, extra []byte, w int) *big.Int {
	out := new(big.Int)
	for i := 0; out.BitLen() < w+64 && i < (w+63)/64+1; i++ {
		h := fnv.New64a()
		var sb [9]byte
		for k := 0; k < 8; k++ {
			sb[k] = byte(seed >> uint(8*k))
		}
		sb[8] = byte(i)
		h.Write(sb[:])
		h.Write([]byte(name))
		h.Write(extra)
		out.Lsh(out, 64)
		out.Or(out, new(big.Int).SetUint64(h.Sum64()))
	}
	return trunc(out, w)
}

func trunc(x *big.Int, w int) *big.Int {
	m := new(big.Int).Lsh(big.NewInt(1), uint(w))
	m.Sub(m, big.NewInt(1))
	return new(big.Int).And(x, m)
}

func (e *evaluator) eval(t *Term) *big.Int {
	if v, ok := e.memo[t]; ok {
		return v
	}
	if v, ok := e.over[t]; ok {
		e.memo[t] = v
		return v
	}
	v := e.eval1(t)
	e.memo[t] = v
	return v
}

func b2i(b bool) *big.Int {
	if b {
		return big.NewInt(1)
	}
	return big.NewInt(0)
}

func toSigned(x *big.Int, w int) *big.Int {
	if x.Bit(w-1) == 1 {
		return new(big.Int).Sub(x, new(big.Int).Lsh(big.NewInt(1), uint(w)))
	}
	return x
}

func (e *evaluator) eval1(t *Term) *big.Int {
	w := t.S.W
	if t.S.K == KBool {
		w = 1
	}
	if t.S.K == KFP {
		e.ok = false
		return big.NewInt(0)
	}
	a := func(i int) *big.Int { return e.eval(t.Args[i]) }
	switch t.Op {
	case OConst:
		return new(big.Int).SetUint64(t.Val)
	case OVar:
		return hashToBig(e.seed, t.Name, nil, w)
	case ONot:
		return b2i(a(0).Sign() == 0)
	case OAnd:
		return b2i(a(0).Sign() != 0 && a(1).Sign() != 0)
	case OOr:
		return b2i(a(0).Sign() != 0 || a(1).Sign() != 0)
	case OIte:
		if a(0).Sign() != 0 {
			return a(1)
		}
		return a(2)
	case OEq:
		if t.Args[0].S.K == KFP {
			e.ok = false
			return big.NewInt(0)
		}
		return b2i(a(0).Cmp(a(1)) == 0)
	case OBvAdd:
		return trunc(new(big.Int).Add(a(0), a(1)), w)
	case OBvSub:
		return trunc(new(big.Int).Sub(a(0), a(1)), w)
	case OBvMul:
		return trunc(new(big.Int).Mul(a(0), a(1)), w)
	case OBvUDiv:
		if a(1).Sign() == 0 {
			return trunc(big.NewInt(-1), w)
		}
		return new(big.Int).Div(a(0), a(1))
	case OBvURem:
		if a(1).Sign() == 0 {
			return a(0)
		}
		return new(big.Int).Mod(a(0), a(1))
	case OBvSDiv, OBvSRem:
		x, y := toSigned(a(0), w), toSigned(a(1), w)
		if y.Sign() == 0 {
			if t.Op == OBvSRem {
				return a(0)
			}
			if x.Sign() >= 0 {
				return trunc(big.NewInt(-1), w)
			}
			return big.NewInt(1)
		}
		if t.Op == OBvSDiv {
			return trunc(new(big.Int).Quo(x, y), w)
		}
		return trunc(new(big.Int).Rem(x, y), w)
	case OBvAnd:
		return new(big.Int).And(a(0), a(1))
	case OBvOr:
		return new(big.Int).Or(a(0), a(1))
	case OBvXor:
		return new(big.Int).Xor(a(0), a(1))
	case OBvNot:
		return trunc(new(big.Int).Not(a(0)), w)
	case OBvNeg:
		return trunc(new(big.Int).Neg(a(0)), w)
	case OBvShl:
		if a(1).Cmp(big.NewInt(int64(w))) >= 0 {
			return big.NewInt(0)
		}
		return trunc(new(big.Int).Lsh(a(0), uint(a(1).Uint64())), w)
	case OBvLShr:
		if a(1).Cmp(big.NewInt(int64(w))) >= 0 {
			return big.NewInt(0)
		}
		return new(big.Int).Rsh(a(0), uint(a(1).Uint64()))
	case OBvAShr:
		x := toSigned(a(0), w)
		sh := uint(w)
		if a(1).Cmp(big.NewInt(int64(w))) < 0 {
			sh = uint(a(1).Uint64())
		}
		return trunc(new(big.Int).Rsh(x, sh), w)
	case OBvULt:
		return b2i(a(0).Cmp(a(1)) < 0)
	case OBvULe:
		return b2i(a(0).Cmp(a(1)) <= 0)
	case OBvSLt:
		ww := t.Args[0].S.W
		return b2i(toSigned(a(0), ww).Cmp(toSigned(a(1), ww)) < 0)
	case OBvSLe:
		ww := t.Args[0].S.W
		return b2i(toSigned(a(0), ww).Cmp(toSigned(a(1), ww)) <= 0)
	case OConcat:
		r := new(big.Int)
		for i, p := range t.Args {
			r.Lsh(r, uint(p.S.W))
			r.Or(r, a(i))
		}
		return r
	case OExtract:
		return trunc(new(big.Int).Rsh(a(0), uint(t.P2)), t.P1-t.P2+1)
	case OZExt:
		return a(0)
	case OSExt:
		return trunc(toSigned(a(0), t.Args[0].S.W), w)
	case OApp:
		var buf []byte
		for i := range t.Args {
			buf = append(buf, a(i).Bytes()...)
			buf = append(buf, 0xff, byte(i))
		}
		return hashToBig(e.seed, "uf:"+t.Name, buf, w)
	}
	e.ok = false
	return big.NewInt(0)
}

// pcOverrides extracts forced values from simple path-condition atoms: b, not b, t == const.
func pcOverrides(pc []*Term, binds map[*Term]uint64) map[*Term]*big.Int {
	o := map[*Term]*big.Int{}
	for t, v := range binds {
		o[t] = new(big.Int).SetUint64(v)
	}
	for _, p := range pc {
		switch {
		case p.Op == ONot:
			o[p.Args[0]] = big.NewInt(0)
		case p.Op == OEq && p.Args[1].IsConst():
			o[p.Args[0]] = new(big.Int).SetUint64(p.Args[1].Val)
			o[p] = big.NewInt(1)
		case p.Op == OEq && p.Args[0].IsConst():
			o[p.Args[1]] = new(big.Int).SetUint64(p.Args[0].Val)
			o[p] = big.NewInt(1)
		default:
			o[p] = big.NewInt(1)
		}
	}
	return o
}

// maybeEqual reports whether the argument tuples agree under two pseudo-random assignments
// (restricted by the simple atoms of the path condition).
func maybeEqual(x, y []*Term, over map[*Term]*big.Int) bool {
	for _, seed := range []uint64{0x9e3779b97f4a7c15, 0xc2b2ae3d27d4eb4f} {
		e := newEvaluator(seed)
		e.over = over
		for i := range x {
			if e.eval(x[i]).Cmp(e.eval(y[i])) != 0 && e.ok {
				return false
			}
		}
	}
	return true
}
