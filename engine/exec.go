package main

import (
	"fmt"
	"os"
	"go/token"
	"go/types"
	"sort"
	"strings"

	"golang.org/x/tools/go/ssa"
)

type ReplayVal struct {
	Name string `json:"name"`
	Bits int    `json:"bits"`
	Val  uint64 `json:"val"`
}

// PreCall: a harness run before the main one in the same process state (history harnesses).
type PreCall struct {
	Harness string `json:"harness"`
	Shape   []int  `json:"shape"`
}

type Finding struct {
	Candidate bool      `json:"candidate,omitempty"` // inputs from the real rounding-error model: a violation only if the native replay fails
	Pre     []PreCall   `json:"pre,omitempty"`
	Harness string      `json:"harness"`
	Pkg     string      `json:"pkg"`
	Shape   []int       `json:"shape"`
	Kind    string      `json:"kind"` // assert | panic | known | reach
	Label   string      `json:"label"`
	Pos     string      `json:"pos,omitempty"`
	KnownID string      `json:"known_id,omitempty"`
	Values  []ReplayVal `json:"values"`
	MapDesc bool        `json:"map_desc,omitempty"`
}

type ItemResult struct {
	Harness      string
	Pkg          string
	Shape        []int
	Paths        int
	Steps        int
	Obligations  int
	Discharged   int
	Trivial      int
	Violations   []Finding
	KnownHits    []Finding
	Inconclusive []string
	Reached      map[string]int
	Witness      *Finding
	Funcs        map[string]bool
	Stats        QueryStats
	Err          string
	SampleObl    string
	IfConverted  int
	UFCongruence int
	Candidates    int  // FP obligations answered with a real-model candidate (decided by the native replay)
	Truncated     bool // exploration stopped after 24 counterexamples
	Summarized    int // calls of scalar-pure leaf functions evaluated by a merged summary (summarize.go)
	CollisionOnly int // satisfiable only through collisions of uninterpreted functions: not counterexamples
	Relaxed      int // obligations discharged in the real rounding-error model
	WallS        float64
}

type ExecCfg struct {
	MaxPaths  int
	MaxSteps  int
	MaxVisits int32
	MapDesc   bool
	Known     map[string]bool
	MaxConc   int
	UFGeneric bool // counterexample models must be free of collisions of the uninterpreted functions
}

type Exec struct {
	eng  *Engine
	ctx  *Ctx
	sol  *Solver
	cfg  ExecCfg
	res  *ItemResult
	work []*State
	consts map[*ssa.Const]Value
	harness *ssa.Function
	shape   []int
	violTotal int
	fpMemo    map[*Term]bool
	candidate bool
	pre       []PreCall
	preFns    map[*ssa.Function]bool
	violSeen map[string]int
	aesApps  map[*Term]bool
	b64seq   int
	spec     *Term // non-nil while speculating a block under this condition (if-conversion)
}

func deref(t types.Type) types.Type {
	if p, ok := t.Underlying().(*types.Pointer); ok {
		return p.Elem()
	}
	throwf("deref of non-pointer %v", t)
	return nil
}

// ---------- driver for one work item ----------

func (ex *Exec) RunItem(h *ssa.Function, shape []int, pre []PreCall) (out *ItemResult) {
	ex.res = &ItemResult{Harness: h.Name(), Pkg: h.Pkg.Pkg.Path(), Shape: shape, Reached: map[string]int{}, Funcs: map[string]bool{}}
	ex.consts = map[*ssa.Const]Value{}
	ex.violSeen = map[string]int{}
	ex.violTotal = 0
	ex.aesApps = map[*Term]bool{}
	ex.harness = h
	ex.shape = shape
	ex.pre = pre
	ex.preFns = map[*ssa.Function]bool{}
	ex.work = nil
	defer func() {
		if r := recover(); r != nil {
			if e, ok := r.(engineErr); ok {
				ex.res.Err = e.msg
				out = ex.res
				return
			}
			panic(r)
		}
	}()
	st := newState()
	// bottom frame: harness; on top: package init (runs first)
	if len(shape) != len(h.Params) {
		throwf("harness %s expects %d shape parameters, got %d", h.Name(), len(h.Params), len(shape))
	}
	args := make([]Value, len(shape))
	for i, v := range shape {
		if b, ok := h.Params[i].Type().Underlying().(*types.Basic); ok && b.Kind() == types.Bool {
			args[i] = ex.ctx.Bool(v != 0)
		} else {
			args[i] = ex.ctx.BVConst(64, uint64(int64(v)))
		}
	}
	ex.pushFrame(st, h, args, nil, false)
	// history: the pre harnesses run (in order) after package initialisation and before the main harness
	for i := len(pre) - 1; i >= 0; i-- {
		pf := h.Pkg.Func(pre[i].Harness)
		if pf == nil || len(pf.Params) != len(pre[i].Shape) {
			throwf("pre harness %s not found / wrong arity", pre[i].Harness)
		}
		pa := make([]Value, len(pre[i].Shape))
		for j, v := range pre[i].Shape {
			if b, ok := pf.Params[j].Type().Underlying().(*types.Basic); ok && b.Kind() == types.Bool {
				pa[j] = ex.ctx.Bool(v != 0)
			} else {
				pa[j] = ex.ctx.BVConst(64, uint64(int64(v)))
			}
		}
		ex.preFns[pf] = true
		ex.pushFrame(st, pf, pa, nil, true)
		st.top().isPre = true
	}
	if initFn := h.Pkg.Func("init"); initFn != nil {
		ex.pushFrame(st, initFn, nil, nil, true)
	}
	ex.work = append(ex.work, st)
	for len(ex.work) > 0 {
		s := ex.work[len(ex.work)-1]
		ex.work = ex.work[:len(ex.work)-1]
		ex.runPath(s)
		if ex.violTotal >= 24 && len(ex.res.Violations) >= 2 && !ex.cfg.UFGeneric {
			// the item's verdict is settled (the driver replays the counterexamples); the remaining paths of a badly
			// broken tree are not explored
			ex.res.Truncated = true
			break
		}
		if ex.res.Paths > ex.cfg.MaxPaths {
			ex.res.Inconclusive = append(ex.res.Inconclusive, fmt.Sprintf("path budget %d exceeded", ex.cfg.MaxPaths))
			break
		}
	}
	return ex.res
}

func (ex *Exec) runPath(st *State) {
	for {
		if len(st.frames) == 0 {
			ex.res.Paths++
			ex.res.Steps += st.steps
			return
		}
		st.steps++
		if st.steps > ex.cfg.MaxSteps {
			ex.res.Inconclusive = append(ex.res.Inconclusive, fmt.Sprintf("UNWIND: step budget %d exceeded in %s", ex.cfg.MaxSteps, st.frames[len(st.frames)-1].fn))
			ex.res.Paths++
			ex.res.Steps += st.steps
			return
		}
		done := ex.stepGuard(st)
		if done {
			ex.res.Paths++
			ex.res.Steps += st.steps
			return
		}
	}
}

// stepGuard executes one instruction; returns true when the path ended.
func (ex *Exec) stepGuard(st *State) (ended bool) {
	defer func() {
		if r := recover(); r != nil {
			switch e := r.(type) {
			case pathEnd:
				ended = true
			case needFork:
				ex.forkOnValues(st, e.t)
				ended = true
				ex.res.Paths-- // the forked children continue this path
				ex.res.Steps -= st.steps
			case needForkCases:
				ex.forkOnCases(st, e.cases)
				ended = true
				ex.res.Paths--
				ex.res.Steps -= st.steps
			case engineErr:
				fr := st.frames[len(st.frames)-1]
				pos := ""
				if fr.ip < len(fr.block.Instrs) {
					pos = ex.eng.prog.Fset.Position(fr.block.Instrs[fr.ip].Pos()).String()
				}
				panic(engineErr{e.msg + " [in " + fr.fn.String() + " " + pos + "]"})
			default:
				panic(r)
			}
		}
	}()
	fr := st.top()
	in := fr.block.Instrs[fr.ip]
	ex.step(st, fr, in)
	return false
}

func (ex *Exec) forkOnValues(st *State, t *Term) {
	// enumerate feasible values of t under pc
	max := ex.cfg.MaxConc
	var vals []uint64
	asserts := append([]*Term(nil), st.pc...)
	for {
		res, _, ev := ex.sol.CheckEval(ex.ctx, asserts, false, []*Term{t})
		if res == "unsat" {
			break
		}
		if res != "sat" {
			throwf("concretisation of %s: solver returned %s", Inline(t, 3), res)
		}
		v := ev[0]
		vals = append(vals, v)
		asserts = append(asserts, ex.ctx.Not(ex.ctx.Eq(t, ex.ctx.Const(t.S, v))))
		if len(vals) > max {
			throwf("concretisation of %s: more than %d feasible values", Inline(t, 3), max)
		}
	}
	sort.Slice(vals, func(i, j int) bool { return vals[i] > vals[j] })
	for i, v := range vals {
		n := st
		if i < len(vals)-1 {
			n = st.fork()
		}
		n.pc = append(n.pc, ex.ctx.Eq(t, ex.ctx.Const(t.S, v)))
		n.binds[t] = v
		ex.work = append(ex.work, n)
	}
}

func (ex *Exec) forkOnCases(st *State, cases []forkCase) {
	var feas []forkCase
	for _, cs := range cases {
		if ex.feasible(st, cs.cond) {
			feas = append(feas, cs)
		}
	}
	if traceQueries {
		fmt.Fprintf(os.Stderr, "FORKCASES cases=%d feasible=%d at %s pc=%d work=%d\n", len(cases), len(feas), ex.posOf(st), len(st.pc), len(ex.work))
		for _, cs := range feas {
			fmt.Fprintf(os.Stderr, "   case cond=%s trues=%d falses=%d bind=%v\n", Inline(cs.cond, 4), len(cs.trues), len(cs.falses), cs.bindT != nil)
		}
	}
	for i, cs := range feas {
		n := st
		if i < len(feas)-1 {
			n = st.fork()
		}
		n.pc = append(n.pc, cs.cond)
		if cs.bindT != nil {
			n.binds[cs.bindT] = cs.bindV
		}
		if len(cs.falses)+len(cs.trues) > 0 {
			if n.facts == nil {
				n.facts = map[*Term]bool{}
			}
			for _, f := range cs.falses {
				n.facts[f] = false
			}
			for _, f := range cs.trues {
				n.facts[f] = true
			}
		}
		ex.work = append(ex.work, n)
	}
}

func (ex *Exec) factSimp(st *State, t *Term) *Term {
	if v, ok := st.facts[t]; ok {
		return ex.ctx.Bool(v)
	}
	return t
}

// keyCases builds the case split "key equals entry i" / "key equals no entry" for a symbolic scalar key.
func (ex *Exec) keyCases(st *State, mo *MapObj, key Value) []forkCase {
	c := ex.ctx
	var cases []forkCase
	none := c.True
	var eqs []*Term
	for i := range mo.Keys {
		if mo.Present[i].IsFalse() {
			continue
		}
		// the fact recorded for a case is the whole hit term "entry present and key equal" (hash-consed: mapLookup /
		// mapUpdate rebuild the identical term and find the fact)
		hit := ex.factSimp(st, c.And(mo.Present[i], ex.eqValue(key, mo.Keys[i])))
		if hit.IsFalse() {
			continue
		}
		cs := forkCase{cond: hit}
		keyT, keyIsTerm := key.(*Term)
		if kt, ok := mo.Keys[i].(*Term); ok && keyIsTerm && kt.IsConst() && mo.Present[i].IsTrue() {
			cs.bindT, cs.bindV = keyT, kt.Val
		} else if !hit.IsConst() {
			cs.trues = []*Term{hit}
		}
		cases = append(cases, cs)
		none = c.And(none, c.Not(hit))
		if !hit.IsConst() {
			eqs = append(eqs, hit)
		}
	}
	// at most one present entry equals the key (map invariant): in the case "entry i is hit" every other hit term is
	// false - recorded so that the re-executed look-up does not stumble over them again
	for k := range cases {
		for _, h := range eqs {
			if h != cases[k].cond {
				cases[k].falses = append(cases[k].falses, h)
			}
		}
	}
	cases = append(cases, forkCase{cond: none, falses: eqs})
	return cases
}

// concretize returns the concrete value of a scalar term, forking if needed.
func (ex *Exec) concretize(st *State, t *Term) uint64 {
	if t.IsConst() {
		return t.Val
	}
	if v, ok := st.binds[t]; ok {
		return v
	}
	panic(needFork{t})
}

func (ex *Exec) resolve(st *State, t *Term) *Term {
	if t.IsConst() {
		return t
	}
	if v, ok := st.binds[t]; ok {
		return ex.ctx.Const(t.S, v)
	}
	return t
}

// ---------- frames ----------

func (ex *Exec) pushFrame(st *State, fn *ssa.Function, args []Value, bind []Value, isDefer bool) {
	if fn.Blocks == nil {
		throwf("call of function without body: %s", fn)
	}
	if len(st.frames) > 200 {
		throwf("call depth exceeded at %s", fn)
	}
	info := infoFor(fn)
	fr := &Frame{owner: st.id, fn: fn, info: info, regs: make([]Value, info.nregs), bind: bind, block: fn.Blocks[0], isDefer: isDefer, visits: make([]int32, len(fn.Blocks))}
	copy(fr.regs, args)
	st.frames = append(st.frames, fr)
	if fn.Pkg != nil || fn.Synthetic == "" {
		ex.res.Funcs[fn.String()] = true
	}
}

func (ex *Exec) val(st *State, fr *Frame, v ssa.Value) Value {
	switch x := v.(type) {
	case *ssa.Const:
		if r, ok := ex.consts[x]; ok {
			return r
		}
		r := ex.constValue(x)
		ex.consts[x] = r
		return r
	case *ssa.Global:
		return PtrV{Obj: st.globalObj(ex, x)}
	case *ssa.Function:
		return FuncV{Fn: x}
	case *ssa.FreeVar:
		for i, fv := range fr.fn.FreeVars {
			if fv == x {
				return fr.bind[i]
			}
		}
		throwf("free var not found")
	case *ssa.Builtin:
		throwf("builtin %s used as value", x.Name())
	}
	i, ok := fr.info.idx[v]
	if !ok {
		throwf("no register for %s (%T)", v.Name(), v)
	}
	r := fr.regs[i]
	if r == nil {
		throwf("read of unset register %s in %s", v.Name(), fr.fn)
	}
	return r
}

func (ex *Exec) setReg(fr *Frame, v ssa.Value, val Value) {
	fr.regs[fr.info.idx[v]] = val
}

func (ex *Exec) term(st *State, fr *Frame, v ssa.Value) *Term {
	t, ok := ex.val(st, fr, v).(*Term)
	if !ok {
		throwf("scalar expected for %s, got %T", v.Name(), ex.val(st, fr, v))
	}
	return t
}

// ---------- path condition, feasibility, obligations ----------

func (ex *Exec) inPC(st *State, c *Term) (bool, bool) {
	nc := ex.ctx.Not(c)
	for _, p := range st.pc {
		if p == c {
			return true, true
		}
		if p == nc {
			return false, true
		}
	}
	return false, false
}

func (ex *Exec) feasible(st *State, c *Term) bool {
	if c.IsConst() {
		return c.Val == 1
	}
	if v, ok := ex.inPC(st, c); ok {
		return v
	}
	if ex.queryHasFP(st, c) {
		// branch conditions over floating point: a short bit-precise attempt, no fall-back solvers; unknown keeps
		// the branch (sound: more paths, never fewer)
		ex.sol.skipFallback, ex.sol.softTimeoutMs = true, 3000
		defer func() { ex.sol.skipFallback, ex.sol.softTimeoutMs = false, 0 }()
	}
	res, _ := ex.sol.Check(ex.ctx, append(append([]*Term(nil), st.pc...), c), false)
	return res != "unsat"
}

// queryHasFP: does the query "path condition and c" contain floating-point terms? (memoised per term)
func (ex *Exec) queryHasFP(st *State, c *Term) bool {
	if ex.fpMemo == nil {
		ex.fpMemo = map[*Term]bool{}
	}
	has := func(t *Term) bool {
		if v, ok := ex.fpMemo[t]; ok {
			return v
		}
		v := hasFP(t, map[*Term]bool{})
		ex.fpMemo[t] = v
		return v
	}
	if has(c) {
		return true
	}
	for _, p := range st.pc {
		if has(p) {
			return true
		}
	}
	return false
}

func (ex *Exec) modelFor(st *State, extra *Term) (string, []ReplayVal) {
	as := append([]*Term(nil), st.pc...)
	if extra != nil {
		as = append(as, extra)
	}
	// counterexamples must not live on collisions of the uninterpreted CMAC / AES functions (a real replay would
	// not show them): prefer a model in which applications with different arguments differ in every 16-bit half.
	// If no such model exists the counterexample exists only through collisions and is not reported.
	var g []*Term
	var evals []*Term
	if extra != nil && ex.cfg.UFGeneric {
		if g = ex.ufGeneric(st); g != nil {
			G := ex.ctx.True
			for _, t := range g {
				G = ex.ctx.And(G, t)
			}
			evals = []*Term{G}
		}
	}
	res, model, ev := ex.sol.CheckEval(ex.ctx, as, true, evals)
	if res == "sat" && len(ex.ctx.Axioms) > 0 && (ex.cfg.UFGeneric || extra == nil || eagerAxioms) {
		// UF inverse axioms are only brought in to confirm a satisfiable answer (unsat without them stays unsat with
		// them); for counterexamples of obligations this is left to the second pass the driver makes when the first
		// model does not replay natively (the confirmation query can take minutes on paths with many AES applications)
		as = append(as, ex.ctx.Axioms...)
		res, model, ev = ex.sol.CheckEval(ex.ctx, as, true, evals)
	}
	if res == "sat" && g != nil && !(len(ev) == 1 && ev[0] == 1) {
		r2, m2 := ex.sol.Check(ex.ctx, append(append([]*Term(nil), as...), g...), true)
		switch r2 {
		case "sat":
			model = m2
		case "unsat":
			ex.res.CollisionOnly++
			return "unsat", nil
		}
	}
	if res != "sat" {
		return res, nil
	}
	vals := make([]ReplayVal, len(st.nondets))
	for i, nv := range st.nondets {
		bits := nv.T.S.W
		if nv.T.S.K == KBool {
			bits = 1
		}
		vals[i] = ReplayVal{Name: nv.Name, Bits: bits, Val: model[nv.T.Name]}
	}
	return res, vals
}

// ufGeneric: for every pair of applications of the same uninterpreted function on this path:
// arguments equal, or the results differ in every 16-bit half.
func (ex *Exec) ufGeneric(st *State) []*Term {
	c := ex.ctx
	apps := st.ufApps
	if len(apps) < 2 || len(apps) > 40 || os.Getenv("GOSMT_NO_UFGENERIC") != "" {
		return nil
	}
	var out []*Term
	for i := 0; i < len(apps); i++ {
		for j := i + 1; j < len(apps); j++ {
			a, b := apps[i], apps[j]
			if a.Name != b.Name || len(a.Args) != len(b.Args) || a.S != b.S || a.S.W%16 != 0 {
				continue
			}
			eq := c.True
			for k := range a.Args {
				eq = c.And(eq, ex.eqParts(a.Args[k], b.Args[k]))
			}
			if eq.IsTrue() {
				continue
			}
			diff := c.True
			for h := 0; h < a.S.W/16; h++ {
				diff = c.And(diff, c.Not(c.Eq(c.Extract(a, 16*h+15, 16*h), c.Extract(b, 16*h+15, 16*h))))
			}
			out = append(out, c.Or(eq, diff))
		}
	}
	return out
}

// inPre: is a pre harness of the item still running on this path?
func (ex *Exec) inPre(st *State) bool {
	if len(ex.preFns) == 0 {
		return false
	}
	for _, fr := range st.frames {
		if fr.isPre {
			return true
		}
	}
	return false
}

func (ex *Exec) posOf(st *State) string {
	fr := st.frames[len(st.frames)-1]
	if fr.ip < len(fr.block.Instrs) {
		p := ex.eng.prog.Fset.Position(fr.block.Instrs[fr.ip].Pos())
		if p.IsValid() {
			return fmt.Sprintf("%s:%d", shortFile(p.Filename), p.Line)
		}
	}
	// walk up for a valid position
	for i := len(st.frames) - 2; i >= 0; i-- {
		f := st.frames[i]
		if f.ip < len(f.block.Instrs) {
			p := ex.eng.prog.Fset.Position(f.block.Instrs[f.ip].Pos())
			if p.IsValid() {
				return fmt.Sprintf("%s:%d", shortFile(p.Filename), p.Line)
			}
		}
	}
	return fr.fn.String()
}

func shortFile(f string) string {
	f = strings.TrimPrefix(f, "/repo/")
	if i := strings.LastIndex(f, "/src/"); i >= 0 && strings.Contains(f, "go") {
		return f[i+5:]
	}
	return f
}

func (ex *Exec) record(st *State, kind, label, knownID string, vals []ReplayVal) {
	if ex.spec != nil {
		panic(specAbort{})
	}
	f := Finding{Candidate: ex.candidate, Pre: ex.pre, Harness: ex.harness.Name(), Pkg: ex.res.Pkg, Shape: ex.shape, Kind: kind, Label: label, Pos: ex.posOf(st), KnownID: knownID, Values: vals, MapDesc: ex.cfg.MapDesc}
	key := kind + "|" + label + "|" + knownID
	ex.violSeen[key]++
	if kind != "known" {
		ex.violTotal++
	}
	if ex.violSeen[key] > 2 {
		return
	}
	if kind == "known" {
		ex.res.KnownHits = append(ex.res.KnownHits, f)
	} else {
		ex.res.Violations = append(ex.res.Violations, f)
	}
}

// oblige checks that cond holds on every input reaching this point; afterwards cond is assumed.
// kind: "assert" or "panic". knownID != "": a hit is a known finding when the id is listed.
func (ex *Exec) oblige(st *State, cond *Term, kind, label, knownID string) {
	ex.res.Obligations++
	if cond.IsTrue() {
		ex.res.Discharged++
		ex.res.Trivial++
		return
	}
	if v, ok := ex.inPC(st, cond); ok && v {
		ex.res.Discharged++
		ex.res.Trivial++
		return
	}
	if ex.spec != nil {
		panic(specAbort{})
	}
	fp := ex.queryHasFP(st, cond)
	if fp {
		ex.sol.skipFallback = true
	}
	res, vals := ex.modelFor(st, ex.ctx.Not(cond))
	ex.sol.skipFallback = false
	if fp && res != "sat" && res != "unsat" {
		// bit-precise query timed out: try the real-arithmetic rounding-error model (a proof under that model only)
		var nd []*Term
		for _, nv := range st.nondets {
			nd = append(nd, nv.T)
		}
		rres, rmodel := relaxedCheck(ex.ctx, st.pc, cond, nd, false)
		switch {
		case rres == "unsat":
			res = "unsat"
			ex.res.Relaxed++
		case rres == "sat":
			// candidate counterexamples from the real model (first from the model with a quarter of the round-off
			// bound, then from the full one): reported only if the native replay reproduces one of them
			models := []map[string]uint64{rmodel}
			if r2, m2 := relaxedCheck(ex.ctx, st.pc, cond, nd, true); r2 == "sat" {
				models = []map[string]uint64{m2, rmodel}
			}
			recorded := false
			for _, mdl := range models {
				cv := make([]ReplayVal, len(st.nondets))
				complete := true
				for i, nv := range st.nondets {
					bits := nv.T.S.W
					if nv.T.S.K == KBool {
						bits = 1
					}
					v, ok := mdl[nv.T.Name]
					if !ok {
						complete = false
					}
					if bits < 64 {
						v &= (uint64(1) << uint(bits)) - 1
					}
					cv[i] = ReplayVal{Name: nv.Name, Bits: bits, Val: v}
				}
				if complete {
					ex.candidate = true
					k := kind
					if knownID != "" && ex.cfg.Known[knownID] {
						k = "known"
					}
					ex.record(st, k, label, knownID, cv)
					ex.candidate = false
					recorded = true
				}
			}
			if recorded {
				ex.res.Candidates++
				// the path continues under the assumption that the obligation holds
				st.pc = append(st.pc, cond)
				return
			}
			res, vals = ex.modelFor(st, ex.ctx.Not(cond))
		default:
			res, vals = ex.modelFor(st, ex.ctx.Not(cond))
		}
	}
	switch res {
	case "unsat":
		ex.res.Discharged++
		if ex.res.SampleObl == "" && !cond.hasUF {
			ex.res.SampleObl = fmt.Sprintf("%s %q: (assert (not %s)) under %d path constraints -> unsat", kind, label, Inline(cond, 4), len(st.pc))
		}
		st.pc = append(st.pc, cond)
		return
	case "sat":
		k := kind
		if knownID != "" && ex.cfg.Known[knownID] {
			k = "known"
		}
		ex.record(st, k, label, knownID, vals)
	default:
		if os.Getenv("GOSMT_SHOWOBL") != "" {
			fmt.Fprintf(os.Stderr, "UNKNOWN OBLIGATION %q: %s\n", label, Inline(cond, 12))
		}
		ex.res.Inconclusive = append(ex.res.Inconclusive, fmt.Sprintf("solver %s on %s %q at %s", res, kind, label, ex.posOf(st)))
	}
	if cond.IsFalse() || !ex.feasible(st, cond) {
		panic(pathEnd{"obligation fails on all inputs of this path"})
	}
	st.pc = append(st.pc, cond)
}

func (ex *Exec) assume(st *State, c *Term) {
	if c.IsTrue() {
		return
	}
	if c.IsFalse() || !ex.feasible(st, c) {
		panic(pathEnd{"assumption infeasible"})
	}
	st.pc = append(st.pc, c)
}

// ---------- memory ----------

func (ex *Exec) elIndex(st *State, el PathEl) (int, *Term) {
	if el.Sym == nil {
		return el.I, nil
	}
	if v, ok := st.binds[el.Sym]; ok {
		return int(v), nil
	}
	if el.Sym.IsConst() {
		return int(el.Sym.Val), nil
	}
	return 0, el.Sym
}

func (ex *Exec) getPath(st *State, v Value, path []PathEl) Value {
	if len(path) == 0 {
		return v
	}
	el := path[0]
	switch x := v.(type) {
	case *StructV:
		return ex.getPath(st, x.F[el.I], path[1:])
	case *ArrayV:
		i, sym := ex.elIndex(st, el)
		if sym == nil {
			if i < 0 || i >= len(x.E) {
				throwf("internal: array index %d out of range %d", i, len(x.E))
			}
			return ex.getPath(st, x.E[i], path[1:])
		}
		var res Value
		for j := el.Hi - 1; j >= el.Lo; j-- {
			e := ex.getPath(st, x.E[j], path[1:])
			if res == nil {
				res = e
				continue
			}
			r, ok := ex.iteValue(ex.ctx.Eq(sym, ex.ctx.BVConst(64, uint64(j))), e, res)
			if !ok {
				panic(needFork{sym})
			}
			res = r
		}
		if res == nil {
			throwf("internal: empty symbolic index range")
		}
		return res
	}
	throwf("getPath: cannot navigate %T", v)
	return nil
}

func (ex *Exec) setPath(st *State, v Value, path []PathEl, nv Value) Value {
	if len(path) == 0 {
		return nv
	}
	el := path[0]
	switch x := v.(type) {
	case *StructV:
		f := append([]Value(nil), x.F...)
		f[el.I] = ex.setPath(st, x.F[el.I], path[1:], nv)
		return &StructV{F: f}
	case *ArrayV:
		e := append([]Value(nil), x.E...)
		i, sym := ex.elIndex(st, el)
		if sym == nil {
			e[i] = ex.setPath(st, x.E[i], path[1:], nv)
			return &ArrayV{E: e}
		}
		for j := el.Lo; j < el.Hi; j++ {
			upd := ex.setPath(st, x.E[j], path[1:], nv)
			r, ok := ex.iteValue(ex.ctx.Eq(sym, ex.ctx.BVConst(64, uint64(j))), upd, x.E[j])
			if !ok {
				panic(needFork{sym})
			}
			e[j] = r
		}
		return &ArrayV{E: e}
	}
	throwf("setPath: cannot navigate %T", v)
	return nil
}

func (ex *Exec) nilCheck(st *State, obj int, what string) {
	if obj == 0 {
		_, vals := ex.modelFor(st, nil)
		ex.res.Obligations++
		ex.record(st, "panic", "nil pointer dereference ("+what+")", "", vals)
		panic(pathEnd{"nil deref"})
	}
}

func (ex *Exec) load(st *State, p PtrV) Value {
	ex.nilCheck(st, p.Obj, "load")
	return ex.getPath(st, st.hget(p.Obj), p.Path)
}

func (ex *Exec) store(st *State, p PtrV, v Value) {
	ex.nilCheck(st, p.Obj, "store")
	if len(p.Path) == 0 {
		st.hset(p.Obj, v)
		return
	}
	st.hset(p.Obj, ex.setPath(st, st.hget(p.Obj), p.Path, v))
}

func (ex *Exec) sliceArray(st *State, s SliceV) *ArrayV {
	if s.Obj == 0 {
		return &ArrayV{}
	}
	a, ok := ex.getPath(st, st.hget(s.Obj), s.Path).(*ArrayV)
	if !ok {
		throwf("slice backing is not an array")
	}
	return a
}

func (ex *Exec) sliceElems(st *State, s SliceV) []Value {
	if s.Len == 0 {
		return nil
	}
	a := ex.sliceArray(st, s)
	return a.E[s.Off : s.Off+s.Len]
}

// sliceWrite writes vals at s[at:at+len(vals)] (indices relative to the slice, may extend to cap).
func (ex *Exec) sliceWrite(st *State, s SliceV, at int, vals []Value) {
	if len(vals) == 0 {
		return
	}
	a := ex.sliceArray(st, s)
	e := append([]Value(nil), a.E...)
	copy(e[s.Off+at:], vals)
	na := &ArrayV{E: e}
	if len(s.Path) == 0 {
		st.hset(s.Obj, na)
	} else {
		st.hset(s.Obj, ex.setPath(st, st.hget(s.Obj), s.Path, na))
	}
}

func (ex *Exec) newSlice(st *State, elems []Value, cap int, zero Value) SliceV {
	e := make([]Value, cap)
	copy(e, elems)
	for i := len(elems); i < cap; i++ {
		e[i] = zero
	}
	obj := st.alloc(&ArrayV{E: e})
	return SliceV{Obj: obj, Off: 0, Len: len(elems), Cap: cap}
}

var sizeClasses = []int{0, 8, 16, 24, 32, 48, 64, 80, 96, 112, 128, 144, 160, 176, 192, 208, 224, 240, 256, 288, 320, 352, 384, 416, 448, 480, 512, 576, 640, 704, 768, 896, 1024, 1152, 1280, 1408, 1536, 1792, 2048, 2304, 2688, 3072, 3200, 3456, 4096, 4864, 5120, 5376, 6144, 6528, 6784, 6912, 8192, 9472, 9728, 10240, 10880, 12288, 13568, 14336, 16384, 18432, 19072, 20480, 21760, 24576, 27264, 28672, 32768}

func roundupsize(n int) int {
	for _, c := range sizeClasses {
		if c >= n {
			return c
		}
	}
	return (n + 8191) / 8192 * 8192
}

// growCap mirrors runtime.growslice (go1.20+) capacity computation.
func growCap(oldCap, newLen, elemSize int) int {
	newcap := oldCap
	doublecap := newcap + newcap
	if newLen > doublecap {
		newcap = newLen
	} else {
		const threshold = 256
		if oldCap < threshold {
			newcap = doublecap
		} else {
			for newcap < newLen {
				newcap += (newcap + 3*threshold) >> 2
			}
		}
	}
	if elemSize == 0 {
		return newcap
	}
	mem := roundupsize(newcap * elemSize)
	return mem / elemSize
}

func (ex *Exec) elemSize(t types.Type) int {
	return int(ex.eng.sizes.Sizeof(t))
}

// ---------- maps ----------

func (ex *Exec) mapObj(st *State, m MapV) *MapObj {
	if m.Obj == 0 {
		return &MapObj{}
	}
	return st.hget(m.Obj).(*MapObj)
}

func (ex *Exec) resolveKey(st *State, k Value) Value {
	if t, ok := k.(*Term); ok {
		return ex.resolve(st, t)
	}
	return k
}

// mapLookup returns (value, present).
// lockCheck: accesses to watched maps must happen with the RWMutex stub counters showing a held lock.
func (ex *Exec) lockCheck(st *State, m MapV, write bool) {
	if st.watched == nil || !st.watched[m.Obj] {
		return
	}
	get := func(name string) *Term {
		g, ok := ex.harness.Pkg.Members[name].(*ssa.Global)
		if !ok {
			throwf("lock monitor: %s not found", name)
		}
		return st.hget(st.globalObj(ex, g)).(*Term)
	}
	w, r := get("verifLockW"), get("verifLockR")
	c := ex.ctx
	wHeld := c.Eq(w, c.BVConst(64, 1))
	if write {
		ex.oblige(st, wHeld, "monitor", "registry written only with the write lock held", "")
	} else {
		ex.oblige(st, c.Or(wHeld, c.BvCmp(OBvSLt, c.BVConst(64, 0), r)), "monitor", "registry read only with the lock held", "")
	}
}

func (ex *Exec) mapLookup(st *State, m MapV, key Value, zero Value) (Value, *Term) {
	ex.lockCheck(st, m, false)
	mo := ex.mapObj(st, m)
	key = ex.resolveKey(st, key)
	c := ex.ctx
	var res Value = zero
	found := c.False
	for i := len(mo.Keys) - 1; i >= 0; i-- {
		if ex.factSimp(st, c.And(mo.Present[i], ex.eqValue(key, mo.Keys[i]))).IsTrue() {
			return mo.Vals[i], c.True
		}
	}
	for i := len(mo.Keys) - 1; i >= 0; i-- {
		hit := ex.factSimp(st, c.And(mo.Present[i], ex.eqValue(key, mo.Keys[i])))
		if hit.IsFalse() {
			continue
		}
		if hit.IsTrue() {
			// at most one present entry equals the key (invariant of mapUpdate)
			return mo.Vals[i], c.True
		}
		r, ok := ex.iteValue(hit, mo.Vals[i], res)
		if !ok {
			panic(needForkCases{ex.keyCases(st, mo, key)})
		}
		res = r
		found = c.Or(hit, found)
	}
	return res, found
}

func (ex *Exec) mapUpdate(st *State, m MapV, key, val Value) {
	if m.Obj == 0 {
		_, vals := ex.modelFor(st, nil)
		ex.record(st, "panic", "assignment to entry in nil map", "", vals)
		panic(pathEnd{"nil map"})
	}
	ex.lockCheck(st, m, true)
	mo := ex.mapObj(st, m)
	key = ex.resolveKey(st, key)
	c := ex.ctx
	n := &MapObj{Keys: append([]Value(nil), mo.Keys...), Vals: append([]Value(nil), mo.Vals...), Present: append([]*Term(nil), mo.Present...)}
	none := c.True
	for i := range n.Keys {
		hit := ex.factSimp(st, c.And(n.Present[i], ex.eqValue(key, n.Keys[i])))
		if hit.IsFalse() {
			continue
		}
		if hit.IsTrue() {
			n.Vals[i] = val
			st.hset(m.Obj, n)
			return
		}
		r, ok := ex.iteValue(hit, val, n.Vals[i])
		if !ok {
			panic(needForkCases{ex.keyCases(st, mo, key)})
		}
		n.Vals[i] = r
		none = c.And(none, c.Not(hit))
	}
	n.Keys = append(n.Keys, key)
	n.Vals = append(n.Vals, val)
	n.Present = append(n.Present, none)
	st.hset(m.Obj, n)
}

func (ex *Exec) mapDelete(st *State, m MapV, key Value) {
	if m.Obj == 0 {
		return
	}
	mo := ex.mapObj(st, m)
	key = ex.resolveKey(st, key)
	c := ex.ctx
	n := &MapObj{Keys: mo.Keys, Vals: mo.Vals, Present: append([]*Term(nil), mo.Present...)}
	for i := range n.Keys {
		hit := ex.factSimp(st, c.And(n.Present[i], ex.eqValue(key, n.Keys[i])))
		n.Present[i] = c.And(n.Present[i], c.Not(hit))
	}
	st.hset(m.Obj, n)
}

func valueSortKey(v Value) (uint64, string, int) {
	switch x := v.(type) {
	case *Term:
		if x.IsConst() {
			return x.Val, "", 1
		}
	case StringV:
		if s, ok := concreteString(x); ok {
			return 0, s, 2
		}
	}
	return 0, "", 0
}

func (ex *Exec) makeIter(st *State, x Value) IterV {
	switch m := x.(type) {
	case MapV:
		mo := ex.mapObj(st, m)
		type kv struct {
			k, v Value
			n    uint64
			s    string
			sk   int64
		}
		var ents []kv
		sortable := true
		for i := range mo.Keys {
			if mo.Present[i].IsFalse() {
				continue
			}
			if !mo.Present[i].IsTrue() {
				throwf("range over map with symbolic key set")
			}
			n, s, kind := valueSortKey(mo.Keys[i])
			if kind == 0 {
				sortable = false
			}
			sk := int64(n)
			if t, ok := mo.Keys[i].(*Term); ok && t.IsConst() {
				sk = sext64(t.Val, t.S.W)
			}
			ents = append(ents, kv{mo.Keys[i], mo.Vals[i], n, s, sk})
		}
		if sortable {
			sort.SliceStable(ents, func(i, j int) bool {
				if ents[i].s != ents[j].s {
					return ents[i].s < ents[j].s
				}
				return ents[i].sk < ents[j].sk
			})
		}
		if ex.cfg.MapDesc {
			for i, j := 0, len(ents)-1; i < j; i, j = i+1, j-1 {
				ents[i], ents[j] = ents[j], ents[i]
			}
		}
		io := &IterObj{}
		for _, e := range ents {
			io.Keys = append(io.Keys, e.k)
			io.Vals = append(io.Vals, e.v)
		}
		return IterV{Obj: st.alloc(io)}
	case StringV:
		io := &IterObj{IsStr: true}
		for i, b := range m.B {
			if !b.IsConst() || b.Val >= 0x80 {
				throwf("range over non-ASCII or symbolic string")
			}
			io.Keys = append(io.Keys, ex.ctx.BVConst(64, uint64(i)))
			io.Vals = append(io.Vals, ex.ctx.BVConst(32, b.Val))
		}
		return IterV{Obj: st.alloc(io)}
	}
	throwf("range over %T", x)
	return IterV{}
}

// ---------- the instruction interpreter ----------

func (ex *Exec) jump(st *State, fr *Frame, to *ssa.BasicBlock) {
	fr.visits[to.Index]++
	if fr.visits[to.Index] > ex.cfg.MaxVisits {
		ex.res.Inconclusive = append(ex.res.Inconclusive, fmt.Sprintf("UNWIND: block %d of %s visited more than %d times", to.Index, fr.fn, ex.cfg.MaxVisits))
		panic(pathEnd{"unwind"})
	}
	from := fr.block
	// phis are evaluated simultaneously
	var phiVals []Value
	var phis []*ssa.Phi
	pi := -1
	for _, in := range to.Instrs {
		phi, ok := in.(*ssa.Phi)
		if !ok {
			break
		}
		if pi < 0 {
			for i, p := range to.Preds {
				if p == from {
					pi = i
					break
				}
			}
		}
		phis = append(phis, phi)
		phiVals = append(phiVals, ex.val(st, fr, phi.Edges[pi]))
	}
	for i, phi := range phis {
		ex.setReg(fr, phi, phiVals[i])
	}
	fr.prev = from
	fr.block = to
	fr.ip = len(phis)
}

func (ex *Exec) step(st *State, fr *Frame, in ssa.Instruction) {
	c := ex.ctx
	switch x := in.(type) {
	case *ssa.DebugRef:
		fr.ip++
	case *ssa.Alloc:
		obj := st.alloc(ex.zero(deref(x.Type())))
		ex.setReg(fr, x, PtrV{Obj: obj})
		fr.ip++
	case *ssa.UnOp:
		ex.setReg(fr, x, ex.unop(st, fr, x))
		fr.ip++
	case *ssa.BinOp:
		ex.setReg(fr, x, ex.binop(st, fr, x.Op, x.X, x.Y))
		fr.ip++
	case *ssa.Store:
		p := ex.val(st, fr, x.Addr).(PtrV)
		nv := ex.val(st, fr, x.Val)
		if ex.spec != nil {
			old := ex.load(st, p)
			m, ok := ex.iteValue(ex.spec, nv, old)
			if !ok {
				panic(specAbort{})
			}
			nv = m
		}
		ex.store(st, p, nv)
		fr.ip++
	case *ssa.FieldAddr:
		p := ex.val(st, fr, x.X).(PtrV)
		ex.nilCheck(st, p.Obj, "field address")
		np := PtrV{Obj: p.Obj, Path: append(append([]PathEl(nil), p.Path...), PathEl{I: x.Field})}
		ex.setReg(fr, x, np)
		fr.ip++
	case *ssa.Field:
		s := ex.val(st, fr, x.X).(*StructV)
		ex.setReg(fr, x, s.F[x.Field])
		fr.ip++
	case *ssa.IndexAddr:
		ex.setReg(fr, x, ex.indexAddr(st, fr, x))
		fr.ip++
	case *ssa.Index:
		ex.setReg(fr, x, ex.index(st, fr, x))
		fr.ip++
	case *ssa.Lookup:
		ex.lookup(st, fr, x)
		fr.ip++
	case *ssa.Slice:
		ex.setReg(fr, x, ex.sliceOp(st, fr, x))
		fr.ip++
	case *ssa.MakeSlice:
		lt := ex.resolve(st, c.Resize(ex.term(st, fr, x.Len), 64, isSigned(x.Len.Type())))
		ct := ex.resolve(st, c.Resize(ex.term(st, fr, x.Cap), 64, isSigned(x.Cap.Type())))
		if !lt.IsConst() {
			ex.oblige(st, c.BvCmp(OBvSLe, c.BVConst(64, 0), lt), "panic", "makeslice: len out of range", "")
		}
		l := int(int64(ex.concretize(st, lt)))
		cp := int(int64(ex.concretize(st, ct)))
		if l < 0 || cp < l {
			_, vals := ex.modelFor(st, nil)
			ex.res.Obligations++
			ex.record(st, "panic", "makeslice: len out of range", "", vals)
			panic(pathEnd{"makeslice"})
		}
		if cp > 1<<22 {
			throwf("makeslice: capacity %d too large for the engine", cp)
		}
		et := x.Type().Underlying().(*types.Slice).Elem()
		s := ex.newSlice(st, nil, cp, ex.zero(et))
		s.Len = l
		ex.setReg(fr, x, s)
		fr.ip++
	case *ssa.MakeMap:
		obj := st.alloc(&MapObj{})
		ex.setReg(fr, x, MapV{Obj: obj})
		fr.ip++
	case *ssa.MakeClosure:
		b := make([]Value, len(x.Bindings))
		for i, bv := range x.Bindings {
			b[i] = ex.val(st, fr, bv)
		}
		ex.setReg(fr, x, FuncV{Fn: x.Fn.(*ssa.Function), Bind: b})
		fr.ip++
	case *ssa.MakeInterface:
		ex.setReg(fr, x, IfaceV{T: x.X.Type(), V: ex.val(st, fr, x.X)})
		fr.ip++
	case *ssa.ChangeInterface:
		ex.setReg(fr, x, ex.val(st, fr, x.X))
		fr.ip++
	case *ssa.ChangeType:
		ex.setReg(fr, x, ex.val(st, fr, x.X))
		fr.ip++
	case *ssa.Convert:
		ex.setReg(fr, x, ex.convert(st, fr, x))
		fr.ip++
	case *ssa.TypeAssert:
		ex.typeAssert(st, fr, x)
		fr.ip++
	case *ssa.Extract:
		t := ex.val(st, fr, x.Tuple).(TupleV)
		ex.setReg(fr, x, t[x.Index])
		fr.ip++
	case *ssa.MapUpdate:
		m := ex.val(st, fr, x.Map).(MapV)
		ex.mapUpdate(st, m, ex.val(st, fr, x.Key), ex.val(st, fr, x.Value))
		fr.ip++
	case *ssa.Range:
		ex.setReg(fr, x, ex.makeIter(st, ex.val(st, fr, x.X)))
		fr.ip++
	case *ssa.Next:
		it := ex.val(st, fr, x.Iter).(IterV)
		io := st.hget(it.Obj).(*IterObj)
		tt := x.Type().(*types.Tuple)
		if io.Pos >= len(io.Keys) {
			ex.setReg(fr, x, TupleV{c.False, ex.zeroOrInvalid(tt.At(1).Type()), ex.zeroOrInvalid(tt.At(2).Type())})
		} else {
			ex.setReg(fr, x, TupleV{c.True, io.Keys[io.Pos], io.Vals[io.Pos]})
			n := *io
			n.Pos++
			st.hset(it.Obj, &n)
		}
		fr.ip++
	case *ssa.Phi:
		throwf("phi reached outside block entry")
	case *ssa.Jump:
		ex.jump(st, fr, fr.block.Succs[0])
	case *ssa.If:
		ex.doIf(st, fr, x)
	case *ssa.Return:
		ex.doReturn(st, fr, x)
	case *ssa.Panic:
		v := ex.val(st, fr, x.X)
		msg := "explicit panic"
		if iv, ok := v.(IfaceV); ok {
			if sv, ok := iv.V.(StringV); ok {
				if s, ok := concreteString(sv); ok {
					msg = "panic: " + s
				}
			}
		}
		_, vals := ex.modelFor(st, nil)
		ex.res.Obligations++
		ex.record(st, "panic", msg, "", vals)
		panic(pathEnd{"panic"})
	case *ssa.Call:
		ex.doCall(st, fr, x, &x.Call, false)
	case *ssa.Defer:
		fv, args := ex.calleeAndArgs(st, fr, &x.Call)
		fr.defers = append(fr.defers, deferred{fn: fv, args: args})
		fr.ip++
	case *ssa.RunDefers:
		if n := len(fr.defers); n > 0 {
			d := fr.defers[n-1]
			fr.defers = fr.defers[:n-1]
			ex.callFunction(st, fr, nil, d.fn, d.args, true)
		} else {
			fr.ip++
		}
	case *ssa.Go, *ssa.Send, *ssa.Select, *ssa.MakeChan:
		throwf("unsupported concurrency instruction %T", in)
	default:
		throwf("unsupported instruction %T: %s", in, in)
	}
}

func (ex *Exec) zeroOrInvalid(t types.Type) Value {
	if b, ok := t.(*types.Basic); ok && b.Kind() == types.Invalid {
		return ex.ctx.BVConst(64, 0)
	}
	return ex.zero(t)
}

func (ex *Exec) doIf(st *State, fr *Frame, x *ssa.If) {
	c := ex.ctx
	cond := ex.term(st, fr, x.Cond)
	tb, eb := fr.block.Succs[0], fr.block.Succs[1]
	if cond.IsConst() {
		if cond.Val == 1 {
			ex.jump(st, fr, tb)
		} else {
			ex.jump(st, fr, eb)
		}
		return
	}
	if v, ok := ex.inPC(st, cond); ok {
		if v {
			ex.jump(st, fr, tb)
		} else {
			ex.jump(st, fr, eb)
		}
		return
	}
	if ex.tryIfConvert(st, x, cond) {
		return
	}
	fr = st.top()
	ncond := c.Not(cond)
	ft := ex.feasible(st, cond)
	fe := true
	if ft {
		fe = ex.feasible(st, ncond)
	}
	switch {
	case ft && fe:
		n := st.fork()
		fr = st.top()
		n.pc = append(n.pc, ncond)
		nfr := n.top()
		ex.jumpOrEnd(n, nfr, eb)
		st.pc = append(st.pc, cond)
		ex.jump(st, fr, tb)
	case ft:
		st.pc = append(st.pc, cond)
		ex.jump(st, fr, tb)
	default:
		st.pc = append(st.pc, ncond)
		ex.jump(st, fr, eb)
	}
}

// jumpOrEnd jumps in a forked state and queues it (dropping it when the unwinding bound is hit).
func (ex *Exec) jumpOrEnd(n *State, nfr *Frame, to *ssa.BasicBlock) {
	defer func() {
		if r := recover(); r != nil {
			if _, ok := r.(pathEnd); ok {
				ex.res.Paths++
				return
			}
			panic(r)
		}
	}()
	ex.jump(n, nfr, to)
	ex.work = append(ex.work, n)
}

func (ex *Exec) doReturn(st *State, fr *Frame, x *ssa.Return) {
	var res Value
	switch len(x.Results) {
	case 0:
	case 1:
		res = ex.val(st, fr, x.Results[0])
	default:
		t := make(TupleV, len(x.Results))
		for i, r := range x.Results {
			t[i] = ex.val(st, fr, r)
		}
		res = t
	}
	isDefer := fr.isDefer
	st.frames = st.frames[:len(st.frames)-1]
	if len(st.frames) == 0 {
		return
	}
	if isDefer && len(st.frames) == 1+len(ex.pre) && fr.fn.Name() == "init" && st.globalOf == nil {
		ex.markGlobals(st)
	}
	ex.finishCall(st, res, isDefer)
}

// markGlobals records, once package initialisation is over, which heap objects are reachable from
// package-level variables of the module under test (the write monitor of C10 reports stores to them).
func (ex *Exec) markGlobals(st *State) {
	st.globalOf = map[int]string{}
	st.gwrites = map[string]bool{}
	var walk func(v Value, name string, depth int)
	visit := func(obj int, name string, depth int) {
		if obj == 0 {
			return
		}
		if _, seen := st.globalOf[obj]; seen {
			return
		}
		st.globalOf[obj] = name
		walk(st.hget(obj), name, depth+1)
	}
	walk = func(v Value, name string, depth int) {
		if depth > 12 {
			return
		}
		switch x := v.(type) {
		case *StructV:
			for _, f := range x.F {
				walk(f, name, depth)
			}
		case *ArrayV:
			for _, e := range x.E {
				walk(e, name, depth)
			}
		case PtrV:
			visit(x.Obj, name, depth)
		case SliceV:
			visit(x.Obj, name, depth)
		case MapV:
			visit(x.Obj, name, depth)
		case IfaceV:
			if x.T != nil {
				walk(x.V, name, depth)
			}
		case *MapObj:
			for i := range x.Keys {
				walk(x.Keys[i], name, depth)
				walk(x.Vals[i], name, depth)
			}
		case FuncV:
			for _, b := range x.Bind {
				walk(b, name, depth)
			}
		}
	}
	for g, obj := range st.globals {
		if g.Pkg == nil || !strings.HasPrefix(g.Pkg.Pkg.Path(), modulePath) || strings.HasPrefix(g.Name(), "verif") || strings.HasPrefix(g.Name(), "init$") {
			continue
		}
		visit(obj, g.Pkg.Pkg.Name()+"."+g.Name(), 0)
	}
}

// finishCall delivers a call result to the (new) top frame and advances it.
func (ex *Exec) finishCall(st *State, res Value, isDefer bool) {
	caller := st.top()
	if isDefer {
		return
	}
	in := caller.block.Instrs[caller.ip]
	if call, ok := in.(*ssa.Call); ok {
		if res == nil {
			res = TupleV{}
		}
		ex.setReg(caller, call, res)
	}
	caller.ip++
}

func (ex *Exec) calleeAndArgs(st *State, fr *Frame, cc *ssa.CallCommon) (FuncV, []Value) {
	var args []Value
	var fv FuncV
	if cc.IsInvoke() {
		recv := ex.val(st, fr, cc.Value).(IfaceV)
		if recv.T == nil {
			ex.nilCheck(st, 0, "method call on nil interface")
		}
		fn := ex.eng.prog.LookupMethod(recv.T, cc.Method.Pkg(), cc.Method.Name())
		if fn == nil {
			throwf("method %s not found on %v", cc.Method.Name(), recv.T)
		}
		fv = FuncV{Fn: fn}
		args = append(args, recv.V)
	} else {
		switch f := cc.Value.(type) {
		case *ssa.Function:
			fv = FuncV{Fn: f}
		case *ssa.Builtin:
			throwf("deferred builtin %s unsupported", f.Name())
		default:
			fv = ex.val(st, fr, cc.Value).(FuncV)
			if fv.Fn == nil {
				ex.nilCheck(st, 0, "call of nil func")
			}
		}
	}
	for _, a := range cc.Args {
		args = append(args, ex.val(st, fr, a))
	}
	return fv, args
}

func (ex *Exec) doCall(st *State, fr *Frame, instr *ssa.Call, cc *ssa.CallCommon, isDefer bool) {
	if b, ok := cc.Value.(*ssa.Builtin); ok && !cc.IsInvoke() {
		res := ex.builtin(st, fr, b, cc, instr)
		ex.setReg(fr, instr, res)
		fr.ip++
		return
	}
	fv, args := ex.calleeAndArgs(st, fr, cc)
	ex.callFunction(st, fr, instr, fv, args, isDefer)
}

func (ex *Exec) callFunction(st *State, fr *Frame, instr *ssa.Call, fv FuncV, args []Value, isDefer bool) {
	fn := fv.Fn
	name := fn.String()
	if r, ok := ex.redirectFor(name); ok {
		fn = r
		name = fn.String()
	}
	if ex.eng.isNoop(fn) {
		var res Value
		rs := fn.Signature.Results()
		switch rs.Len() {
		case 0:
		case 1:
			res = ex.zero(rs.At(0).Type())
		default:
			res = ex.zero(rs)
		}
		ex.finishCall(st, res, isDefer)
		return
	}
	if h, ok := intrinsics[intrinsicKey(fn)]; ok {
		res := h(ex, st, fn, args)
		ex.finishCall(st, res, isDefer)
		return
	}
	if fn.Blocks == nil && fn.Pkg != nil {
		ex.eng.buildPkg(fn.Pkg)
	}
	if fn.Blocks == nil {
		throwf("call of external/unsupported function %s", name)
	}
	if fn.Name() == "init" && fn.Pkg != nil && fn.Signature.Recv() == nil && !ex.eng.initAllowed(fn.Pkg.Pkg.Path()) {
		ex.finishCall(st, nil, isDefer)
		return
	}
	if !noSummaries {
		if si := summarizable(fn); si.ok {
			ex.finishCall(st, ex.summarize(st, fn, si, args), isDefer)
			return
		}
	}
	ex.pushFrame(st, fn, args, fv.Bind, isDefer)
}

var noSummaries = os.Getenv("GOSMT_NO_SUMMARIES") != ""
var eagerAxioms = os.Getenv("GOSMT_EAGER_AXIOMS") != ""

// ---------- operators ----------

func (ex *Exec) unop(st *State, fr *Frame, x *ssa.UnOp) Value {
	c := ex.ctx
	switch x.Op {
	case token.MUL:
		p := ex.val(st, fr, x.X).(PtrV)
		return ex.load(st, p)
	case token.NOT:
		return c.Not(ex.term(st, fr, x.X))
	case token.SUB:
		t := ex.term(st, fr, x.X)
		if t.S.K == KFP {
			return c.FUn(OFNeg, t)
		}
		return c.BvNeg(t)
	case token.XOR:
		return c.BvNot(ex.term(st, fr, x.X))
	}
	throwf("unsupported unary op %s", x.Op)
	return nil
}

func (ex *Exec) shiftAmount(y *Term, w int) (*Term, *Term) {
	// returns (amount resized to w, overflow condition or nil)
	c := ex.ctx
	if y.S.W == w {
		return y, nil
	}
	if y.S.W < w {
		return c.ZExt(y, w), nil
	}
	big := c.Not(c.BvCmp(OBvULt, y, c.BVConst(y.S.W, uint64(w))))
	return c.Extract(y, w-1, 0), big
}

func (ex *Exec) binop(st *State, fr *Frame, op token.Token, X, Y ssa.Value) Value {
	c := ex.ctx
	xv := ex.val(st, fr, X)
	yv := ex.val(st, fr, Y)
	xt, isT := xv.(*Term)
	if !isT {
		// comparison of non-scalars / string concat
		switch op {
		case token.EQL:
			return ex.eqValue(xv, yv)
		case token.NEQ:
			return c.Not(ex.eqValue(xv, yv))
		case token.ADD:
			a, b := xv.(StringV), yv.(StringV)
			return StringV{B: append(append([]*Term(nil), a.B...), b.B...)}
		case token.LSS, token.LEQ, token.GTR, token.GEQ:
			a, ok1 := xv.(StringV)
			b, ok2 := yv.(StringV)
			if ok1 && ok2 {
				as, o1 := concreteString(a)
				bs, o2 := concreteString(b)
				if o1 && o2 {
					switch op {
					case token.LSS:
						return c.Bool(as < bs)
					case token.LEQ:
						return c.Bool(as <= bs)
					case token.GTR:
						return c.Bool(as > bs)
					default:
						return c.Bool(as >= bs)
					}
				}
			}
		}
		throwf("unsupported binop %s on %T", op, xv)
	}
	yt := yv.(*Term)
	signed := isSigned(X.Type())
	if xt.S.K == KBool {
		switch op {
		case token.EQL:
			return c.Eq(xt, yt)
		case token.NEQ:
			return c.Not(c.Eq(xt, yt))
		case token.AND, token.LAND:
			return c.And(xt, yt)
		case token.OR, token.LOR:
			return c.Or(xt, yt)
		}
		throwf("unsupported bool binop %s", op)
	}
	if xt.S.K == KFP {
		switch op {
		case token.ADD:
			return c.FBin(OFAdd, xt, yt)
		case token.SUB:
			return c.FBin(OFSub, xt, yt)
		case token.MUL:
			return c.FBin(OFMul, xt, yt)
		case token.QUO:
			return c.FBin(OFDiv, xt, yt)
		case token.EQL:
			return c.FCmp(OFEq, xt, yt)
		case token.NEQ:
			return c.Not(c.FCmp(OFEq, xt, yt))
		case token.LSS:
			return c.FCmp(OFLt, xt, yt)
		case token.LEQ:
			return c.FCmp(OFLe, xt, yt)
		case token.GTR:
			return c.FCmp(OFLt, yt, xt)
		case token.GEQ:
			return c.FCmp(OFLe, yt, xt)
		}
		throwf("unsupported float binop %s", op)
	}
	w := xt.S.W
	switch op {
	case token.ADD:
		return c.BvBin(OBvAdd, xt, yt)
	case token.SUB:
		return c.BvBin(OBvSub, xt, yt)
	case token.MUL:
		return c.BvBin(OBvMul, xt, yt)
	case token.QUO, token.REM:
		if !(yt.IsConst() && yt.Val != 0) {
			ex.oblige(st, c.Not(c.Eq(yt, c.BVConst(w, 0))), "panic", "integer divide by zero", "")
		}
		switch {
		case op == token.QUO && signed:
			return c.BvBin(OBvSDiv, xt, yt)
		case op == token.QUO:
			return c.BvBin(OBvUDiv, xt, yt)
		case signed:
			return c.BvBin(OBvSRem, xt, yt)
		default:
			return c.BvBin(OBvURem, xt, yt)
		}
	case token.AND:
		return c.BvBin(OBvAnd, xt, yt)
	case token.OR:
		return c.BvBin(OBvOr, xt, yt)
	case token.XOR:
		return c.BvBin(OBvXor, xt, yt)
	case token.AND_NOT:
		return c.BvBin(OBvAnd, xt, c.BvNot(yt))
	case token.SHL, token.SHR:
		amt, big := ex.shiftAmount(yt, w)
		var r *Term
		switch {
		case op == token.SHL:
			r = c.BvBin(OBvShl, xt, amt)
		case signed:
			r = c.BvBin(OBvAShr, xt, amt)
		default:
			r = c.BvBin(OBvLShr, xt, amt)
		}
		if big != nil {
			var ov *Term
			if op == token.SHR && signed {
				ov = c.BvBin(OBvAShr, xt, c.BVConst(w, uint64(w-1)))
			} else {
				ov = c.BVConst(w, 0)
			}
			r = c.Ite(big, ov, r)
		}
		return r
	case token.EQL:
		return c.Eq(xt, yt)
	case token.NEQ:
		return c.Not(c.Eq(xt, yt))
	case token.LSS:
		if signed {
			return c.BvCmp(OBvSLt, xt, yt)
		}
		return c.BvCmp(OBvULt, xt, yt)
	case token.LEQ:
		if signed {
			return c.BvCmp(OBvSLe, xt, yt)
		}
		return c.BvCmp(OBvULe, xt, yt)
	case token.GTR:
		if signed {
			return c.BvCmp(OBvSLt, yt, xt)
		}
		return c.BvCmp(OBvULt, yt, xt)
	case token.GEQ:
		if signed {
			return c.BvCmp(OBvSLe, yt, xt)
		}
		return c.BvCmp(OBvULe, yt, xt)
	}
	throwf("unsupported binop %s", op)
	return nil
}

func (ex *Exec) convert(st *State, fr *Frame, x *ssa.Convert) Value {
	c := ex.ctx
	from := x.X.Type().Underlying()
	to := x.Type().Underlying()
	v := ex.val(st, fr, x.X)
	// string <-> []byte
	if tb, ok := to.(*types.Basic); ok && tb.Info()&types.IsString != 0 {
		switch f := from.(type) {
		case *types.Slice:
			s := v.(SliceV)
			el := ex.sliceElems(st, s)
			b := make([]*Term, len(el))
			for i, e := range el {
				b[i] = e.(*Term)
			}
			if eb, ok := f.Elem().Underlying().(*types.Basic); !ok || eb.Kind() != types.Uint8 {
				throwf("string(%v) unsupported", f)
			}
			return StringV{B: b}
		case *types.Basic:
			if f.Info()&types.IsString != 0 {
				return v
			}
			if f.Info()&types.IsInteger != 0 {
				t := v.(*Term)
				if t.IsConst() && t.Val < 0x80 {
					return ex.strConst(string(rune(t.Val)))
				}
			}
		}
		throwf("unsupported conversion to string from %v", from)
	}
	if ts, ok := to.(*types.Slice); ok {
		if fb, ok := from.(*types.Basic); ok && fb.Info()&types.IsString != 0 {
			if eb, ok := ts.Elem().Underlying().(*types.Basic); ok && eb.Kind() == types.Uint8 {
				s := v.(StringV)
				el := make([]Value, len(s.B))
				for i, b := range s.B {
					el[i] = b
				}
				if len(el) == 0 {
					// Go returns a non-nil empty slice
					return ex.newSlice(st, nil, 0, c.BVConst(8, 0))
				}
				return ex.newSlice(st, el, len(el), c.BVConst(8, 0))
			}
		}
		if _, ok := from.(*types.Slice); ok {
			return v
		}
		throwf("unsupported conversion to slice from %v", from)
	}
	t, ok := v.(*Term)
	if !ok {
		if _, isP := to.(*types.Pointer); isP {
			return v
		}
		throwf("unsupported conversion %v -> %v", from, to)
	}
	ts, ok := sortOf(to)
	if !ok {
		throwf("unsupported conversion target %v", to)
	}
	switch {
	case t.S.K == KBV && ts.K == KBV:
		return c.Resize(t, ts.W, isSigned(from))
	case t.S.K == KBV && ts.K == KFP:
		return c.IntToF(t, ts.W, isSigned(from))
	case t.S.K == KFP && ts.K == KBV:
		return c.FToInt(t, ts.W, isSigned(to))
	case t.S.K == KFP && ts.K == KFP:
		return c.FToF(t, ts.W)
	case t.S.K == KBool && ts.K == KBool:
		return t
	}
	throwf("unsupported conversion %v -> %v", from, to)
	return nil
}

func (ex *Exec) typeAssert(st *State, fr *Frame, x *ssa.TypeAssert) {
	c := ex.ctx
	iv := ex.val(st, fr, x.X).(IfaceV)
	ok := false
	var res Value
	if iface, isI := x.AssertedType.Underlying().(*types.Interface); isI {
		ok = iv.T != nil && types.Implements(iv.T, iface)
		res = iv
	} else {
		ok = iv.T != nil && types.Identical(iv.T, x.AssertedType)
		res = iv.V
	}
	if x.CommaOk {
		if !ok {
			res = ex.zero(x.AssertedType)
		}
		ex.setReg(fr, x, TupleV{res, c.Bool(ok)})
		return
	}
	if !ok {
		_, vals := ex.modelFor(st, nil)
		ex.res.Obligations++
		ex.record(st, "panic", fmt.Sprintf("interface conversion: %v is not %v", iv.T, x.AssertedType), "", vals)
		panic(pathEnd{"type assertion"})
	}
	ex.setReg(fr, x, res)
}

func (ex *Exec) indexTerm(st *State, fr *Frame, v ssa.Value) *Term {
	t := ex.term(st, fr, v)
	return ex.resolve(st, ex.ctx.Resize(t, 64, isSigned(v.Type())))
}

func (ex *Exec) boundsCheck(st *State, idx *Term, n int, what string) {
	c := ex.ctx
	if idx.IsConst() {
		i := int64(idx.Val)
		if i < 0 || i >= int64(n) {
			_, vals := ex.modelFor(st, nil)
			ex.res.Obligations++
			ex.record(st, "panic", fmt.Sprintf("index out of range [%d] with length %d (%s)", i, n, what), "", vals)
			panic(pathEnd{"index"})
		}
		return
	}
	ex.oblige(st, c.BvCmp(OBvULt, idx, c.BVConst(64, uint64(n))), "panic", "index out of range ("+what+")", "")
}

func (ex *Exec) indexAddr(st *State, fr *Frame, x *ssa.IndexAddr) Value {
	c := ex.ctx
	idx := ex.indexTerm(st, fr, x.Index)
	switch b := ex.val(st, fr, x.X).(type) {
	case SliceV:
		ex.boundsCheck(st, idx, b.Len, "slice")
		path := append([]PathEl(nil), b.Path...)
		if idx.IsConst() {
			path = append(path, PathEl{I: b.Off + int(idx.Val)})
		} else {
			path = append(path, PathEl{Sym: c.BvBin(OBvAdd, idx, c.BVConst(64, uint64(b.Off))), Lo: b.Off, Hi: b.Off + b.Len})
		}
		return PtrV{Obj: b.Obj, Path: path}
	case PtrV:
		ex.nilCheck(st, b.Obj, "index of nil array pointer")
		n := int(deref(x.X.Type()).Underlying().(*types.Array).Len())
		ex.boundsCheck(st, idx, n, "array")
		path := append([]PathEl(nil), b.Path...)
		if idx.IsConst() {
			path = append(path, PathEl{I: int(idx.Val)})
		} else {
			path = append(path, PathEl{Sym: idx, Lo: 0, Hi: n})
		}
		return PtrV{Obj: b.Obj, Path: path}
	}
	throwf("IndexAddr on %T", ex.val(st, fr, x.X))
	return nil
}

func (ex *Exec) index(st *State, fr *Frame, x *ssa.Index) Value {
	idx := ex.indexTerm(st, fr, x.Index)
	switch b := ex.val(st, fr, x.X).(type) {
	case *ArrayV:
		ex.boundsCheck(st, idx, len(b.E), "array value")
		if idx.IsConst() {
			return b.E[idx.Val]
		}
		return ex.getPath(st, b, []PathEl{{Sym: idx, Lo: 0, Hi: len(b.E)}})
	case StringV:
		return ex.stringIndex(st, b, idx)
	}
	throwf("Index on %T", ex.val(st, fr, x.X))
	return nil
}

func (ex *Exec) stringIndex(st *State, s StringV, idx *Term) Value {
	c := ex.ctx
	ex.boundsCheck(st, idx, len(s.B), "string")
	if idx.IsConst() {
		return s.B[idx.Val]
	}
	if isConstTree(idx) {
		allConst := true
		for _, b := range s.B {
			if !b.IsConst() {
				allConst = false
				break
			}
		}
		if allConst {
			return c.mapLeaves(idx, func(k *Term) *Term {
				if k.Val < uint64(len(s.B)) {
					return s.B[k.Val]
				}
				return c.BVConst(8, 0)
			})
		}
	}
	_, hi := c.URange(idx)
	n := len(s.B)
	if hi < uint64(n-1) {
		n = int(hi) + 1
	}
	res := s.B[n-1]
	for j := n - 2; j >= 0; j-- {
		res = c.Ite(c.Eq(idx, c.BVConst(64, uint64(j))), s.B[j], res)
	}
	return res
}

func (ex *Exec) lookup(st *State, fr *Frame, x *ssa.Lookup) {
	c := ex.ctx
	switch b := ex.val(st, fr, x.X).(type) {
	case StringV:
		idx := ex.indexTerm(st, fr, x.Index)
		ex.setReg(fr, x, ex.stringIndex(st, b, idx))
	case MapV:
		zero := ex.zero(x.X.Type().Underlying().(*types.Map).Elem())
		v, ok := ex.mapLookup(st, b, ex.val(st, fr, x.Index), zero)
		if x.CommaOk {
			ex.setReg(fr, x, TupleV{v, ok})
		} else {
			ex.setReg(fr, x, v)
		}
	default:
		_ = c
		throwf("Lookup on %T", b)
	}
}

func (ex *Exec) sliceOp(st *State, fr *Frame, x *ssa.Slice) Value {
	c := ex.ctx
	base := ex.val(st, fr, x.X)
	var length, capacity int
	switch b := base.(type) {
	case SliceV:
		length, capacity = b.Len, b.Cap
	case StringV:
		length, capacity = len(b.B), len(b.B)
	case PtrV:
		ex.nilCheck(st, b.Obj, "slice of nil array pointer")
		n := int(deref(x.X.Type()).Underlying().(*types.Array).Len())
		length, capacity = n, n
	default:
		throwf("Slice on %T", base)
	}
	get := func(v ssa.Value, def int) *Term {
		if v == nil {
			return c.BVConst(64, uint64(def))
		}
		return ex.indexTerm(st, fr, v)
	}
	lo := get(x.Low, 0)
	hiDef := length
	hi := get(x.High, hiDef)
	mx := get(x.Max, capacity)
	if !lo.IsConst() || !hi.IsConst() || !mx.IsConst() {
		// symbolic bounds: obligation first, then concretise
		cond := c.AndN(c.BvCmp(OBvULe, lo, hi), c.BvCmp(OBvULe, hi, mx), c.BvCmp(OBvULe, mx, c.BVConst(64, uint64(capacity))))
		ex.oblige(st, cond, "panic", "slice bounds out of range", "")
	}
	l := int(int64(ex.concretize(st, lo)))
	h := int(int64(ex.concretize(st, hi)))
	m := int(int64(ex.concretize(st, mx)))
	if l < 0 || l > h || h > m || m > capacity {
		_, vals := ex.modelFor(st, nil)
		ex.res.Obligations++
		ex.record(st, "panic", fmt.Sprintf("slice bounds out of range [%d:%d:%d] with capacity %d", l, h, m, capacity), "", vals)
		panic(pathEnd{"slice bounds"})
	}
	switch b := base.(type) {
	case SliceV:
		if b.Obj == 0 {
			return SliceV{}
		}
		return SliceV{Obj: b.Obj, Path: b.Path, Off: b.Off + l, Len: h - l, Cap: m - l}
	case StringV:
		return StringV{B: b.B[l:h]}
	case PtrV:
		return SliceV{Obj: b.Obj, Path: b.Path, Off: l, Len: h - l, Cap: m - l}
	}
	return nil
}

func (ex *Exec) builtin(st *State, fr *Frame, b *ssa.Builtin, cc *ssa.CallCommon, instr *ssa.Call) Value {
	c := ex.ctx
	arg := func(i int) Value { return ex.val(st, fr, cc.Args[i]) }
	switch b.Name() {
	case "len":
		switch v := arg(0).(type) {
		case SliceV:
			return c.BVConst(64, uint64(v.Len))
		case StringV:
			return c.BVConst(64, uint64(len(v.B)))
		case MapV:
			mo := ex.mapObj(st, v)
			n := c.BVConst(64, 0)
			for i := range mo.Keys {
				n = c.BvBin(OBvAdd, n, c.Ite(mo.Present[i], c.BVConst(64, 1), c.BVConst(64, 0)))
			}
			return n
		case *ArrayV:
			return c.BVConst(64, uint64(len(v.E)))
		case PtrV:
			return c.BVConst(64, uint64(deref(cc.Args[0].Type()).Underlying().(*types.Array).Len()))
		}
	case "cap":
		switch v := arg(0).(type) {
		case SliceV:
			return c.BVConst(64, uint64(v.Cap))
		case *ArrayV:
			return c.BVConst(64, uint64(len(v.E)))
		}
	case "append":
		s := arg(0).(SliceV)
		var add []Value
		switch t := arg(1).(type) {
		case SliceV:
			add = append(add, ex.sliceElems(st, t)...)
		case StringV:
			for _, bt := range t.B {
				add = append(add, bt)
			}
		default:
			throwf("append of %T", t)
		}
		if len(add) == 0 {
			return s
		}
		n := s.Len + len(add)
		if n <= s.Cap {
			ex.sliceWrite(st, s, s.Len, add)
			s.Len = n
			return s
		}
		et := cc.Args[0].Type().Underlying().(*types.Slice).Elem()
		nc := growCap(s.Cap, n, ex.elemSize(et))
		all := append(append([]Value(nil), ex.sliceElems(st, s)...), add...)
		return ex.newSlice(st, all, nc, ex.zero(et))
	case "copy":
		d := arg(0).(SliceV)
		var src []Value
		switch t := arg(1).(type) {
		case SliceV:
			src = ex.sliceElems(st, t)
		case StringV:
			for _, bt := range t.B {
				src = append(src, bt)
			}
		}
		n := len(src)
		if d.Len < n {
			n = d.Len
		}
		ex.sliceWrite(st, d, 0, append([]Value(nil), src[:n]...))
		return c.BVConst(64, uint64(n))
	case "delete":
		ex.mapDelete(st, arg(0).(MapV), arg(1))
		return TupleV{}
	case "print", "println":
		return TupleV{}
	case "ssa:wrapnilchk":
		p := arg(0).(PtrV)
		ex.nilCheck(st, p.Obj, "value method called via nil pointer")
		return p
	case "min", "max":
		r := arg(0).(*Term)
		signed := isSigned(cc.Args[0].Type())
		for i := 1; i < len(cc.Args); i++ {
			y := arg(i).(*Term)
			var lt *Term
			if r.S.K == KFP {
				if b.Name() == "min" {
					r = c.FBin(OFMin, r, y)
				} else {
					r = c.FBin(OFMax, r, y)
				}
				continue
			}
			if signed {
				lt = c.BvCmp(OBvSLt, r, y)
			} else {
				lt = c.BvCmp(OBvULt, r, y)
			}
			if b.Name() == "min" {
				r = c.Ite(lt, r, y)
			} else {
				r = c.Ite(lt, y, r)
			}
		}
		return r
	}
	throwf("unsupported builtin %s on %T", b.Name(), arg(0))
	return nil
}


// ---------- if-conversion of simple triangles / diamonds (with conditional stores) ----------

type specAbort struct{}

func simpleBlock(b *ssa.BasicBlock) bool {
	if len(b.Preds) != 1 || len(b.Instrs) == 0 || len(b.Instrs) > 24 {
		return false
	}
	if _, ok := b.Instrs[len(b.Instrs)-1].(*ssa.Jump); !ok {
		return false
	}
	for _, in := range b.Instrs[:len(b.Instrs)-1] {
		switch y := in.(type) {
		case *ssa.DebugRef, *ssa.ChangeType, *ssa.FieldAddr, *ssa.IndexAddr, *ssa.Field, *ssa.Index, *ssa.Store, *ssa.Extract, *ssa.MakeInterface, *ssa.ChangeInterface:
		case *ssa.BinOp:
			if bt, ok := y.X.Type().Underlying().(*types.Basic); ok && bt.Info()&types.IsString != 0 && y.Op == token.ADD {
				return false
			}
		case *ssa.UnOp:
			if y.Op == token.ARROW {
				return false
			}
		case *ssa.Convert:
			fb, ok1 := y.X.Type().Underlying().(*types.Basic)
			tb, ok2 := y.Type().Underlying().(*types.Basic)
			if !ok1 || !ok2 || fb.Info()&types.IsString != 0 || tb.Info()&types.IsString != 0 {
				return false
			}
		default:
			return false
		}
	}
	return true
}

func predIndex(b, pred *ssa.BasicBlock) int {
	for i, p := range b.Preds {
		if p == pred {
			return i
		}
	}
	return -1
}

// tryIfConvert merges "if c { simple } [else { simple }]" into ite-phis and conditional stores
// instead of forking. Any obligation that is not trivially true inside the speculated blocks
// aborts the attempt (the state is restored and the branch forks as usual).
func (ex *Exec) tryIfConvert(st *State, x *ssa.If, cond *Term) bool {
	if noIfConvert || ex.spec != nil {
		return false
	}
	cur := st.frames[len(st.frames)-1].block
	tb, eb := cur.Succs[0], cur.Succs[1]
	if tb == eb {
		return false
	}
	var join, tPred, ePred *ssa.BasicBlock
	tS, eS := simpleBlock(tb), simpleBlock(eb)
	switch {
	case tS && eS && tb.Succs[0] == eb.Succs[0]:
		join, tPred, ePred = tb.Succs[0], tb, eb
	case tS && tb.Succs[0] == eb:
		join, tPred, ePred = eb, tb, cur
	case eS && eb.Succs[0] == tb:
		join, tPred, ePred = tb, cur, eb
	default:
		return false
	}
	ti, ei := predIndex(join, tPred), predIndex(join, ePred)
	if ti < 0 || ei < 0 {
		return false
	}
	bak := st.fork()
	ok := func() (ok bool) {
		defer func() {
			ex.spec = nil
			if r := recover(); r != nil {
				switch r.(type) {
				case specAbort, pathEnd, needFork:
					ok = false
				default:
					panic(r)
				}
			}
		}()
		fr := st.top()
		runBlock := func(b *ssa.BasicBlock, c *Term) {
			if b == cur {
				return
			}
			ex.spec = c
			saveB, saveIP := fr.block, fr.ip
			fr.block, fr.ip = b, 0
			for _, in := range b.Instrs[:len(b.Instrs)-1] {
				ex.step(st, fr, in)
			}
			fr.block, fr.ip = saveB, saveIP
			ex.spec = nil
		}
		runBlock(tPred, cond)
		runBlock(ePred, ex.ctx.Not(cond))
		var phis []*ssa.Phi
		var vals []Value
		for _, in := range join.Instrs {
			phi, isPhi := in.(*ssa.Phi)
			if !isPhi {
				break
			}
			vt := ex.val(st, fr, phi.Edges[ti])
			ve := ex.val(st, fr, phi.Edges[ei])
			m, mok := ex.iteValue(cond, vt, ve)
			if !mok {
				return false
			}
			phis = append(phis, phi)
			vals = append(vals, m)
		}
		fr.visits[join.Index]++
		if fr.visits[join.Index] > ex.cfg.MaxVisits {
			return false
		}
		for i, phi := range phis {
			ex.setReg(fr, phi, vals[i])
		}
		fr.prev = tPred
		fr.block = join
		fr.ip = len(phis)
		return true
	}()
	if !ok {
		*st = *bak
		return false
	}
	ex.res.IfConverted++
	return true
}

var noIfConvert = false
