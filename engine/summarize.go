package main

import (
	"go/constant"
	"go/token"
	"go/types"
	"sync"

	"golang.org/x/tools/go/ssa"
)

// Summaries of scalar-pure leaf functions: a function whose parameters and results are booleans / integers, whose
// control-flow graph is acyclic and whose instructions are only BinOp / UnOp / Convert / ChangeType / Phi / If / Jump /
// Return (no memory, no calls, no operation that can panic) is not explored path by path: its blocks are evaluated once
// in topological order under edge guards and the results merged with ite.  Same semantics, one path instead of one per
// return statement (e.g. a hex-digit classifier called per input character).

type summaryInfo struct {
	ok    bool
	order []*ssa.BasicBlock
}

var summaries sync.Map

func scalarType(t types.Type) bool {
	b, ok := t.Underlying().(*types.Basic)
	return ok && b.Info()&(types.IsInteger|types.IsBoolean) != 0
}

func summarizable(fn *ssa.Function) *summaryInfo {
	if v, ok := summaries.Load(fn); ok {
		return v.(*summaryInfo)
	}
	si := &summaryInfo{}
	defer summaries.Store(fn, si)
	if fn.Blocks == nil || len(fn.Blocks) < 3 || len(fn.Blocks) > 64 || len(fn.FreeVars) > 0 || fn.Recover != nil {
		return si
	}
	for _, p := range fn.Params {
		if !scalarType(p.Type()) {
			return si
		}
	}
	rs := fn.Signature.Results()
	if rs.Len() == 0 {
		return si
	}
	for i := 0; i < rs.Len(); i++ {
		if !scalarType(rs.At(i).Type()) {
			return si
		}
	}
	for _, b := range fn.Blocks {
		for _, in := range b.Instrs {
			switch x := in.(type) {
			case *ssa.BinOp:
				switch x.Op {
				case token.QUO, token.REM:
					c, ok := x.Y.(*ssa.Const)
					if !ok || c.Value == nil || constant.Sign(c.Value) == 0 {
						return si
					}
				case token.SHL, token.SHR:
					if _, ok := x.Y.(*ssa.Const); !ok {
						if bt, ok := x.Y.Type().Underlying().(*types.Basic); !ok || bt.Info()&types.IsUnsigned == 0 {
							return si
						}
					}
				}
				if !scalarType(x.X.Type()) || !scalarType(x.Y.Type()) {
					return si
				}
			case *ssa.UnOp:
				if x.Op == token.MUL || x.Op == token.ARROW || !scalarType(x.X.Type()) {
					return si
				}
			case *ssa.Convert:
				if !scalarType(x.X.Type()) || !scalarType(x.Type()) {
					return si
				}
			case *ssa.ChangeType:
				if !scalarType(x.X.Type()) || !scalarType(x.Type()) {
					return si
				}
			case *ssa.Phi, *ssa.If, *ssa.Jump, *ssa.Return, *ssa.DebugRef:
			default:
				return si
			}
		}
	}
	// topological order; a back edge disqualifies
	state := make([]int, len(fn.Blocks))
	var post []*ssa.BasicBlock
	cyclic := false
	var dfs func(b *ssa.BasicBlock)
	dfs = func(b *ssa.BasicBlock) {
		state[b.Index] = 1
		for _, s := range b.Succs {
			switch state[s.Index] {
			case 0:
				dfs(s)
			case 1:
				cyclic = true
			}
		}
		state[b.Index] = 2
		post = append(post, b)
	}
	dfs(fn.Blocks[0])
	if cyclic {
		return si
	}
	for i := len(post) - 1; i >= 0; i-- {
		si.order = append(si.order, post[i])
	}
	si.ok = true
	return si
}

// summarize evaluates a summarizable function on args.
func (ex *Exec) summarize(st *State, fn *ssa.Function, si *summaryInfo, args []Value) Value {
	c := ex.ctx
	info := infoFor(fn)
	fr := &Frame{owner: st.id, fn: fn, info: info, regs: make([]Value, info.nregs), block: fn.Blocks[0], visits: make([]int32, len(fn.Blocks))}
	copy(fr.regs, args)
	guard := make([]*Term, len(fn.Blocks))
	edge := map[[2]int]*Term{}
	guard[fn.Blocks[0].Index] = c.True
	type ret struct {
		g    *Term
		vals []Value
	}
	var rets []ret
	for _, b := range si.order {
		g := guard[b.Index]
		if g == nil {
			g = c.False
			for _, p := range b.Preds {
				if e, ok := edge[[2]int{p.Index, b.Index}]; ok {
					g = c.Or(g, e)
				}
			}
			guard[b.Index] = g
		}
		fr.block = b
		for _, in := range b.Instrs {
			switch x := in.(type) {
			case *ssa.Phi:
				var v Value
				for i := len(b.Preds) - 1; i >= 0; i-- {
					e, ok := edge[[2]int{b.Preds[i].Index, b.Index}]
					if !ok {
						continue
					}
					ev := ex.val(st, fr, x.Edges[i])
					if v == nil {
						v = ev
					} else {
						v = c.Ite(e, ev.(*Term), v.(*Term))
					}
				}
				ex.setReg(fr, x, v)
			case *ssa.BinOp:
				ex.setReg(fr, x, ex.binop(st, fr, x.Op, x.X, x.Y))
			case *ssa.UnOp:
				ex.setReg(fr, x, ex.unop(st, fr, x))
			case *ssa.Convert:
				ex.setReg(fr, x, ex.convert(st, fr, x))
			case *ssa.ChangeType:
				ex.setReg(fr, x, ex.val(st, fr, x.X))
			case *ssa.If:
				cond := ex.term(st, fr, x.Cond)
				// both successors may be the same block
				t, e := [2]int{b.Index, b.Succs[0].Index}, [2]int{b.Index, b.Succs[1].Index}
				if t == e {
					edge[t] = g
				} else {
					edge[t] = c.And(g, cond)
					edge[e] = c.And(g, c.Not(cond))
				}
			case *ssa.Jump:
				edge[[2]int{b.Index, b.Succs[0].Index}] = g
			case *ssa.Return:
				r := ret{g: g}
				for _, rv := range x.Results {
					r.vals = append(r.vals, ex.val(st, fr, rv))
				}
				rets = append(rets, r)
			}
		}
	}
	if len(rets) == 0 {
		throwf("summary of %s: no return", fn)
	}
	n := len(rets[0].vals)
	out := make([]Value, n)
	for k := 0; k < n; k++ {
		v := rets[len(rets)-1].vals[k].(*Term)
		for i := len(rets) - 2; i >= 0; i-- {
			v = c.Ite(rets[i].g, rets[i].vals[k].(*Term), v)
		}
		out[k] = v
	}
	ex.res.Funcs[fn.String()] = true
	ex.res.Summarized++
	if n == 1 {
		return out[0]
	}
	return TupleV(out)
}
