package main

import "math/rand"

type PropSpec struct {
	ID          string
	Pkgs        []string
	Items       func(tier string, seed int64) []Item
	Solver      SolverKind
	MaxVisits   int32
	MaxPaths    int
	MaxSteps    int
	TimeoutMs   int
	Bounds      func(tier string) map[string]string
	Stubs       []string
	Outside     []string
	Assumptions []string
}

var props = map[string]*PropSpec{}

func register(p *PropSpec) { props[p.ID] = p }

func rng(lo, hi int) []int {
	var r []int
	for i := lo; i <= hi; i++ {
		r = append(r, i)
	}
	return r
}

func pick(tier string, quick, thorough []int) []int {
	if tier == "thorough" {
		return thorough
	}
	return quick
}

var stubCrypto = []string{
	"crypto/aes: uninterpreted functions AES{128,192,256}_E/_D with the inverse axioms D(k,E(k,x))=x, E(k,D(k,y))=y instantiated per application",
	"jacobsa/crypto/cmac: byte accumulator + uninterpreted CMAC_n(key, message) per message length",
}
var stubErrors = []string{"fmt.Errorf/Sprintf, pkg/errors: opaque error/string values (arguments ignored)"}

func init() {
	register(&PropSpec{
		ID:   "C03",
		Pkgs: []string{"root"},
		Items: func(tier string, seed int64) []Item {
			var it []Item
			for _, n := range pick(tier, []int{0, 1, 15, 16, 17, 31, 32, 33, 255}, rng(0, 255)) {
				it = append(it, Item{PkgKey: "root", Func: "VerifC03_FRMFunc", Shape: []int{n}})
			}
			return it
		},
		Bounds: func(tier string) map[string]string { return map[string]string{} },
		Stubs:  append(append([]string{}, stubCrypto...), stubErrors...),
	})
}

// dataShapes enumerates (nFOpts, fpMode, nFRM) triples for data frames: quick = boundary lengths plus 24 triples
// drawn from the whole space with VERIF_SEED; thorough = every FOpts length 0..15 x every FRMPayload length 0..242.
func dataShapes(tier string, maxTotal int) [][]int { return dataShapesSeed(tier, maxTotal, 0) }

func dataShapesSeed(tier string, maxTotal int, seed int64) [][]int {
	var out [][]int
	seen := map[[3]int]bool{}
	add := func(nfo, mode, nfr int) {
		if mode == 0 && nfr != 0 {
			return
		}
		if mode == 1 && nfo != 0 {
			return
		}
		if 1+7+nfo+1+nfr > maxTotal {
			return
		}
		k := [3]int{nfo, mode, nfr}
		if seen[k] {
			return
		}
		seen[k] = true
		out = append(out, []int{nfo, mode, nfr})
	}
	fo := pick(tier, []int{0, 1, 15}, rng(0, 15))
	fr := pick(tier, []int{0, 1, 15, 16, 17, 33, 222, 242}, rng(0, 242))
	for _, nfo := range fo {
		for mode := 0; mode <= 2; mode++ {
			for _, nfr := range fr {
				add(nfo, mode, nfr)
			}
		}
	}
	if tier != "thorough" {
		r := rand.New(rand.NewSource(seed))
		for i := 0; i < 24; i++ {
			add(r.Intn(16), 2, r.Intn(243))
		}
	}
	return out
}

func init() {
	register(&PropSpec{
		ID:   "C02",
		Pkgs: []string{"root"},
		Items: func(tier string, seed int64) []Item {
			var it []Item
			for ver := 0; ver <= 1; ver++ {
				for _, s := range dataShapesSeed(tier, 255, seed) {
					it = append(it, Item{PkgKey: "root", Func: "VerifC02_Uplink", Shape: append([]int{ver}, s...)})
					it = append(it, Item{PkgKey: "root", Func: "VerifC02_Downlink", Shape: append([]int{ver}, s...)})
				}
			}
			return it
		},
		Bounds: func(tier string) map[string]string { return map[string]string{} },
		Stubs:  append(append([]string{}, stubCrypto...), stubErrors...),
	})
}

func init() {
	p := props["C03"]
	old := p.Items
	p.Items = func(tier string, seed int64) []Item {
		it := old(tier, seed)
		for _, n := range rng(0, 17) {
			it = append(it, Item{PkgKey: "root", Func: "VerifC03_FOptsFunc", Shape: []int{n}})
		}
		for mt := 0; mt < 4; mt++ {
			for mode := 0; mode <= 2; mode++ {
				for _, n := range pick(tier, []int{0, 1, 16, 17, 33}, rng(0, 242)) {
					if mode == 0 && n != 0 {
						continue
					}
					it = append(it, Item{PkgKey: "root", Func: "VerifC03_PHYFRM", Shape: []int{mt, mode, n}})
				}
				for _, n := range pick(tier, []int{0, 1, 15, 16, 17}, rng(0, 17)) {
					if mode == 1 && n != 0 {
						continue
					}
					it = append(it, Item{PkgKey: "root", Func: "VerifC03_PHYFOpts", Shape: []int{mt, mode, n}})
				}
			}
		}
		return it
	}
	register(&PropSpec{
		ID:   "C04",
		Pkgs: []string{"root"},
		Items: func(tier string, seed int64) []Item {
			var it []Item
			for k := 0; k < 3; k++ {
				it = append(it, Item{PkgKey: "root", Func: "VerifC04_UpJoinMIC", Shape: []int{k}})
			}
			for cf := 0; cf <= 8; cf++ {
				it = append(it, Item{PkgKey: "root", Func: "VerifC04_DownJoinMIC", Shape: []int{cf}})
				it = append(it, Item{PkgKey: "root", Func: "VerifC04_JoinAcceptCrypt", Shape: []int{cf}})
			}
			return it
		},
		Bounds: func(tier string) map[string]string { return map[string]string{} },
		Stubs:  append(append([]string{}, stubCrypto...), stubErrors...),
	})
}

func init() {
	register(&PropSpec{
		ID:   "C08",
		Pkgs: []string{"root"},
		Items: func(tier string, seed int64) []Item {
			var it []Item
			for _, l := range pick(tier, append(rng(0, 40), 64, 100, 128, 200, 254, 255, 256), rng(0, 256)) {
				it = append(it, Item{PkgKey: "root", Func: "VerifC08_Canonical", Shape: []int{l}})
			}
			return it
		},
		Bounds: func(tier string) map[string]string { return map[string]string{} },
		Stubs:  stubErrors,
	})
	register(&PropSpec{
		ID:   "C01",
		Pkgs: []string{"root"},
		Items: func(tier string, seed int64) []Item {
			var it []Item
			for mt := 0; mt < 4; mt++ {
				for _, s := range dataShapesSeed(tier, 300, seed) {
					it = append(it, Item{PkgKey: "root", Func: "VerifC01_Data", Shape: append([]int{mt}, s...)})
				}
			}
			for _, s := range [][]int{{0, 0, 0, 0}, {0, 1, 2, 1}, {1, 2, 2, 2}, {2, 15, 2, 3}, {3, 0, 1, 4}} {
				it = append(it, Item{PkgKey: "root", Func: "VerifC01_Text", Shape: s})
			}
			it = append(it, Item{PkgKey: "root", Func: "VerifC01_JoinRequest", Shape: []int{}})
			it = append(it, Item{PkgKey: "root", Func: "VerifC01_Rejoin", Shape: []int{0}}, Item{PkgKey: "root", Func: "VerifC01_Rejoin", Shape: []int{1}})
			for cf := 0; cf <= 8; cf++ {
				it = append(it, Item{PkgKey: "root", Func: "VerifC01_JoinAccept", Shape: []int{cf}})
			}
			for _, n := range pick(tier, []int{0, 1, 2, 17, 64}, append(rng(0, 32), 64, 128, 250)) {
				it = append(it, Item{PkgKey: "root", Func: "VerifC01_Proprietary", Shape: []int{n}})
			}
			return it
		},
		Bounds: func(tier string) map[string]string { return map[string]string{} },
		Stubs:  append(append([]string{}, stubCrypto...), stubErrors...),
	})
}

const nMacSpecs = 29

func init() {
	register(&PropSpec{
		ID:   "C06",
		Pkgs: []string{"root"},
		Items: func(tier string, seed int64) []Item {
			var it []Item
			for i := 0; i < nMacSpecs; i++ {
				it = append(it, Item{PkgKey: "root", Func: "VerifC06_Enc", Shape: []int{i}})
				it = append(it, Item{PkgKey: "root", Func: "VerifC06_Dec", Shape: []int{i}})
			}
			it = append(it, Item{PkgKey: "root", Func: "VerifC06_Registry", Shape: []int{0}}, Item{PkgKey: "root", Func: "VerifC06_Registry", Shape: []int{1}})
			it = append(it, Item{PkgKey: "root", Func: "VerifC06_MHDR", Shape: []int{}}, Item{PkgKey: "root", Func: "VerifC06_FCtrl", Shape: []int{}})
			it = append(it, Item{PkgKey: "root", Func: "VerifC06_CFListDec", Shape: []int{0}}, Item{PkgKey: "root", Func: "VerifC06_CFListDec", Shape: []int{1}})
			// frame headers and join payloads: encoder output byte-for-byte against the spec-side layouts (harnesses shared with C01)
			it = append(it, Item{PkgKey: "root", Func: "VerifC01_JoinRequest", Shape: []int{}})
			it = append(it, Item{PkgKey: "root", Func: "VerifC01_Rejoin", Shape: []int{0}}, Item{PkgKey: "root", Func: "VerifC01_Rejoin", Shape: []int{1}})
			for cf := 0; cf <= 8; cf++ {
				it = append(it, Item{PkgKey: "root", Func: "VerifC01_JoinAccept", Shape: []int{cf}})
			}
			for mt := 0; mt < 4; mt++ {
				for _, sh := range [][]int{{0, 0, 0}, {15, 0, 0}, {0, 1, 5}, {3, 2, 17}} {
					it = append(it, Item{PkgKey: "root", Func: "VerifC01_Data", Shape: append([]int{mt}, sh...)})
				}
			}
			return it
		},
		Bounds: func(tier string) map[string]string { return map[string]string{} },
		Stubs:  stubErrors,
	})
}

func init() {
	register(&PropSpec{
		ID:   "C07",
		Pkgs: []string{"root"},
		Items: func(tier string, seed int64) []Item {
			var it []Item
			for i := 0; i < nMacSpecs; i++ {
				it = append(it, Item{PkgKey: "root", Func: "VerifC07_RoundTrip", Shape: []int{i}})
			}
			return it
		},
		Bounds: func(tier string) map[string]string { return map[string]string{} },
		Stubs:  stubErrors,
	})
}

// spec-table indices by direction (see harness/root/spec_mac.go)
var macDown = rng(0, 16)
var macUp = rng(17, 28)

func init() {
	p := props["C07"]
	old := p.Items
	p.Items = func(tier string, seed int64) []Item {
		it := old(tier, seed)
		for up := 0; up <= 1; up++ {
			for _, l := range pick(tier, rng(0, 4), rng(0, 7)) {
				it = append(it, Item{PkgKey: "root", Func: "VerifC07_Stream", Shape: []int{up, l}})
			}
			set := macDown
			if up == 1 {
				set = macUp
			}
			for _, a := range set {
				it = append(it, Item{PkgKey: "root", Func: "VerifC07_Seq", Shape: []int{up, a, -1, -1}})
				for _, b := range set {
					it = append(it, Item{PkgKey: "root", Func: "VerifC07_Seq", Shape: []int{up, a, b, -1}})
					if tier == "thorough" {
						for _, c := range set {
							it = append(it, Item{PkgKey: "root", Func: "VerifC07_Seq", Shape: []int{up, a, b, c}})
						}
					}
				}
			}
		}
		for _, l := range pick(tier, rng(1, 3), rng(1, 4)) {
			it = append(it, Item{PkgKey: "root", Func: "VerifC07_Proprietary", Shape: []int{l}})
		}
		for _, sz := range []int{1, 2, 5} {
			it = append(it, Item{PkgKey: "root", Func: "VerifC07_ProprietaryTwice", Shape: []int{sz}})
		}
		for _, sz := range [][]int{{3, 1}, {1, 2}, {0, 2}} {
			it = append(it, Item{PkgKey: "root", Func: "VerifC07_ProprietaryHistory", Shape: sz})
		}
		return it
	}
}

func init() {
	register(&PropSpec{
		ID:   "SELFTEST",
		Pkgs: []string{"root"},
		Items: func(tier string, seed int64) []Item {
			return []Item{
				{PkgKey: "root", Func: "VerifC03_FRMFunc", Shape: []int{17}},
				{PkgKey: "root", Func: "VerifC02_Uplink", Shape: []int{1, 1, 2, 3}},
				{PkgKey: "root", Func: "VerifC08_Canonical", Shape: []int{13}},
			}
		},
		Bounds: func(tier string) map[string]string { return map[string]string{} },
	})
}

func init() {
	register(&PropSpec{
		ID:   "C11",
		Pkgs: []string{"root"},
		Items: func(tier string, seed int64) []Item {
			var it []Item
			for t := 0; t < 8; t++ {
				it = append(it, Item{PkgKey: "root", Func: "VerifC11_Prefix", Shape: []int{t}})
			}
			it = append(it, Item{PkgKey: "root", Func: "VerifC11_AddrFields", Shape: []int{}})
			sizes := []int{8, 4, 3, 16}
			for typ := 0; typ < 4; typ++ {
				for mode := 0; mode < 2; mode++ {
					it = append(it, Item{PkgKey: "root", Func: "VerifC11_ReprText", Shape: []int{typ, mode}})
				}
				for n := 0; n <= sizes[typ]+2; n++ {
					it = append(it, Item{PkgKey: "root", Func: "VerifC11_ReprBinary", Shape: []int{typ, n}})
				}
				for n := 0; n <= 2*sizes[typ]+2; n++ {
					it = append(it, Item{PkgKey: "root", Func: "VerifC11_ReprTextLen", Shape: []int{typ, n}})
				}
			}
			return it
		},
		Bounds: func(tier string) map[string]string { return map[string]string{} },
		Stubs:  stubErrors,
	})
}

// bandCfgs enumerates (name index, repeater, dwell-time) configurations; quick: the 14 common names, thorough: + the 10 aliases.
func bandCfgs(tier string) [][]int {
	var out [][]int
	nn := 14
	if tier == "thorough" {
		nn = 24
	}
	for n := 0; n < nn; n++ {
		for rep := 0; rep <= 1; rep++ {
			for dt := 0; dt <= 1; dt++ {
				out = append(out, []int{n, rep, dt})
			}
		}
	}
	return out
}

func init() {
	register(&PropSpec{
		ID:   "C12",
		Pkgs: []string{"band"},
		Items: func(tier string, seed int64) []Item {
			var it []Item
			for _, c := range bandCfgs(tier) {
				for _, f := range []string{"VerifC12_RX1DR", "VerifC12_RX1Chan", "VerifC12_PingSlot", "VerifC12_RX2", "VerifC12_NoPanic"} {
					it = append(it, Item{PkgKey: "band", Func: f, Shape: c})
				}
			}
			return it
		},
		Bounds: func(tier string) map[string]string { return map[string]string{} },
		Stubs:  stubErrors,
	})
}

func init() {
	register(&PropSpec{
		ID:   "C13",
		Pkgs: []string{"band"},
		Items: func(tier string, seed int64) []Item {
			var it []Item
			for _, c := range bandCfgs(tier) {
				it = append(it, Item{PkgKey: "band", Func: "VerifC13_Closed", Shape: c})
				it = append(it, Item{PkgKey: "band", Func: "VerifC13_Lookup", Shape: c})
				it = append(it, Item{PkgKey: "band", Func: "VerifC13_Lookup", Shape: c, MapDesc: true})
				it = append(it, Item{PkgKey: "band", Func: "VerifC13_RPValues", Shape: c})
				// RX1 results handed out by the band (computed, not only tabulated) are defined data-rates
				it = append(it, Item{PkgKey: "band", Func: "VerifC12_RX1DR", Shape: c})
			}
			nn := 14
			if tier == "thorough" {
				nn = 24
			}
			for n := 0; n < nn; n++ {
				for dt := 0; dt <= 1; dt++ {
					for ver := 0; ver < 7; ver++ {
						for rev := 0; rev < 8; rev++ {
							it = append(it, Item{PkgKey: "band", Func: "VerifC13_MaxPayload", Shape: []int{n, dt, ver, rev}})
							if tier == "thorough" || (ver+rev)%3 == 0 || (ver == 6 && rev == 7) {
								for rep := 0; rep <= 1; rep++ {
									it = append(it, Item{PkgKey: "band", Func: "VerifC13_Monotone", Shape: []int{n, rep, dt, ver, rev}})
								}
							}
						}
					}
				}
			}
			return it
		},
		Bounds: func(tier string) map[string]string { return map[string]string{} },
		Stubs:  stubErrors,
	})
}

// band sizes by name index (standard uplink channels) and whether extra channels are supported
var bandNStd = []int{3, 72, 3, 3, 72, 96, 2, 2, 2, 2, 3, 3, 2, 3}
var bandExtra = []bool{true, false, true, true, false, false, true, true, true, true, true, true, true, true}

func init() {
	register(&PropSpec{
		ID:   "C15",
		Pkgs: []string{"band"},
		Items: func(tier string, seed int64) []Item {
			var it []Item
			for n := 0; n < 14; n++ {
				ks := []int{0, 2}
				if tier == "thorough" {
					ks = []int{0, 1, 2, 3}
				}
				if !bandExtra[n] {
					ks = []int{0}
				}
				for _, k := range ks {
					wins := []int{-1}
					if bandNStd[n] > 8 {
						wins = []int{0, 14, 62, bandNStd[n] - 4}
					}
					for _, win := range wins {
						for pat := 0; pat <= 2; pat++ {
							if win < 0 && pat > 0 {
								continue
							}
							it = append(it, Item{PkgKey: "band", Func: "VerifC15_Sets", Shape: []int{n, 0, 0, k, win, pat}})
							for ver := 0; ver < 7; ver++ {
								if tier != "thorough" && ver != 2 && ver != 3 && ver != 6 {
									continue
								}
								it = append(it, Item{PkgKey: "band", Func: "VerifC15_CFList", Shape: []int{n, 0, 0, k, ver, win, pat}})
							}
						}
					}
					for op := 0; op <= 2; op++ {
						it = append(it, Item{PkgKey: "band", Func: "VerifC15_Step", Shape: []int{n, 0, 0, k, op}})
					}
					for op1 := 0; op1 <= 2; op1++ {
						for op2 := 0; op2 <= 3; op2++ {
							if tier != "thorough" && op2 != 3 && op2 != (op1+1)%3 {
								continue
							}
							it = append(it, Item{PkgKey: "band", Func: "VerifC15_StepQueries", Shape: []int{n, 0, 0, k, op1, op2}})
						}
					}
					it = append(it, Item{PkgKey: "band", Func: "VerifC15_Lookup", Shape: []int{n, 0, 0, k}})
				}
				for rep := 0; rep <= 1; rep++ {
					for dt := 0; dt <= 1; dt++ {
						it = append(it, Item{PkgKey: "band", Func: "VerifC15_MACEncodable", Shape: []int{n, rep, dt}})
					}
				}
			}
			return it
		},
		Bounds: func(tier string) map[string]string { return map[string]string{} },
		Stubs:  stubErrors,
	})
}

func init() {
	register(&PropSpec{
		ID:        "C14",
		MaxVisits: 30000,
		Pkgs:      []string{"band"},
		Items: func(tier string, seed int64) []Item {
			var it []Item
			for n := 0; n < 14; n++ {
				if bandNStd[n] <= 8 {
					ks := []int{0, 2}
					if tier == "thorough" {
						ks = []int{0, 1, 2, 3, 4}
					}
					for _, k := range ks {
						for order := 0; order <= 1; order++ {
							it = append(it, Item{PkgKey: "band", Func: "VerifC14_Plan", Shape: []int{n, k, -1, 0, 0, order}})
						}
					}
					continue
				}
				// 72 / 96 channel plans: 4 symbolic channels at a time, the others by pattern (network x device)
				wins := []int{0, 14, 62, bandNStd[n] - 4}
				if tier == "thorough" {
					wins = []int{0, 6, 14, 30, 46, 60, 62, 66, bandNStd[n] - 4}
				}
				for _, win := range wins {
					for pat := 0; pat <= 2; pat++ {
						for devPat := 0; devPat <= 2; devPat++ {
							if tier != "thorough" && (pat+devPat)%2 == 1 {
								continue
							}
							it = append(it, Item{PkgKey: "band", Func: "VerifC14_Plan", Shape: []int{n, 0, win, pat, devPat, 0}})
						}
					}
				}
			}
			return it
		},
		Bounds: func(tier string) map[string]string { return map[string]string{} },
		Stubs:  stubErrors,
	})
}

func init() {
	register(&PropSpec{
		ID:        "C19",
		MaxVisits: 2000000,
		Pkgs:      []string{"fragmentation"},
		Items: func(tier string, seed int64) []Item {
			var it []Item
			ws := pick(tier, append(rng(1, 17), 31, 32, 33), append(rng(1, 66), 127, 128, 129, 130))
			for _, w := range ws {
				for _, size := range pick(tier, []int{1, 3, 8, 16}, []int{1, 2, 3, 7, 8, 9, 16, 24}) {
					red := 5
					if tier == "thorough" {
						red = 40
						if w > 66 {
							red = 10
						}
					}
					it = append(it, Item{PkgKey: "fragmentation", Func: "VerifC19_Encode", Shape: []int{w, size, red}})
				}
				if w <= 17 {
					it = append(it, Item{PkgKey: "fragmentation", Func: "VerifC19_Linear", Shape: []int{w, 2, 3}})
				}
			}
			// fragment counts up to 300 (the matrix line generator branches on power-of-two counts and works modulo the count)
			for _, w := range pick(tier, []int{64, 100, 127, 128, 129, 255, 256, 257, 258, 260, 264, 272, 288, 299, 300}, rng(67, 300)) {
				it = append(it, Item{PkgKey: "fragmentation", Func: "VerifC19_Encode", Shape: []int{w, 1, 3}})
			}
			it = append(it, Item{PkgKey: "fragmentation", Func: "VerifC19_Encode", Shape: []int{4, 2, 0}})
			for n := 0; n <= 8; n++ {
				for red := 0; red <= 2; red++ {
					it = append(it, Item{PkgKey: "fragmentation", Func: "VerifC19_InvalidArgs", Shape: []int{n, red}})
				}
			}
			return it
		},
		Bounds: func(tier string) map[string]string { return map[string]string{} },
		Stubs:  stubErrors,
	})
	register(&PropSpec{
		ID:   "C20",
		Pkgs: []string{"gps", "airtime", "root"},
		Items: func(tier string, seed int64) []Item {
			var it []Item
			for _, f := range []string{"VerifC20_GPSRoundTrip", "VerifC20_GPSOffset", "VerifC20_GPSMonotone", "VerifC20_GPSDuration"} {
				it = append(it, Item{PkgKey: "gps", Func: f, Shape: []int{}})
			}
			it = append(it, Item{PkgKey: "root", Func: "VerifC20_EIRPIndex", Shape: []int{}, Solver: int(SolverCVC5) + 1}, Item{PkgKey: "root", Func: "VerifC20_EIRPDecode", Shape: []int{}, Solver: int(SolverCVC5) + 1})
			it = append(it, Item{PkgKey: "airtime", Func: "VerifC20_CodingRate", Shape: []int{}})
			for sf := 5; sf <= 12; sf++ {
				for bw := 0; bw < 5; bw++ {
					it = append(it, Item{PkgKey: "airtime", Func: "VerifC20_Durations", Shape: []int{sf, bw}})
				}
			}
			for sf := 5; sf <= 12; sf++ {
				for cr := 1; cr <= 4; cr++ {
					for h := 0; h <= 1; h++ {
						for de := 0; de <= 1; de++ {
							if tier != "thorough" && (sf+cr+h+de)%4 != 0 {
								continue
							}
							it = append(it, Item{PkgKey: "airtime", Func: "VerifC20_Symbols", Shape: []int{sf, cr, h, de}, Solver: int(SolverCVC5) + 1})
							for bw := 0; bw < 5; bw++ {
								if tier != "thorough" && (bw+sf)%5 != 0 {
									continue
								}
								it = append(it, Item{PkgKey: "airtime", Func: "VerifC20_Airtime", Shape: []int{sf, bw, cr, h, de}})
							}
						}
					}
				}
			}
			return it
		},
		Bounds: func(tier string) map[string]string { return map[string]string{} },
		Stubs:  append([]string{"time.Time modelled as int64 nanoseconds since the Unix epoch (Add/Sub/Before/After/Equal exact in range 1980..2100); math.Ceil/Max as IEEE roundToIntegral/fp.max"}, stubErrors...),
	})
}

func init() {
	register(&PropSpec{
		ID:   "C05",
		Pkgs: []string{"root"},
		Items: func(tier string, seed int64) []Item {
			var it []Item
			for ver := 0; ver <= 1; ver++ {
				for mt := 0; mt < 4; mt++ {
					set := macUp
					if mt == 1 || mt == 3 {
						set = macDown
					}
					// single commands everywhere, pairs: all in thorough, a diagonal band in quick
					for ai, a := range set {
						for where := 0; where <= 1; where++ {
							it = append(it, Item{PkgKey: "root", Func: "VerifC05_E2E", Shape: []int{ver, mt, a, -1, where, 3}})
						}
						if ai%3 == 0 || tier == "thorough" {
							it = append(it, Item{PkgKey: "root", Func: "VerifC05_E2E", Shape: []int{ver, mt, a, -1, 2, 0}}) // FOpts + FPort, empty FRMPayload
						}
						for bi, b := range set {
							if tier != "thorough" && (ai+bi)%5 != 0 {
								continue
							}
							if specSizes[a]+specSizes[b]+2 > 15 {
								continue
							}
							it = append(it, Item{PkgKey: "root", Func: "VerifC05_E2E", Shape: []int{ver, mt, a, b, 0, 17}})
							it = append(it, Item{PkgKey: "root", Func: "VerifC05_E2E", Shape: []int{ver, mt, a, b, 1, 0}})
						}
					}
					for _, n := range pick(tier, []int{0, 1, 16, 51}, []int{0, 1, 15, 16, 17, 33, 51, 115, 222}) {
						it = append(it, Item{PkgKey: "root", Func: "VerifC05_E2E", Shape: []int{ver, mt, -1, -1, 0, n}})
					}
					for _, s := range dataShapes("quick", 255) {
						if tier != "thorough" && s[2] > 17 {
							continue
						}
						it = append(it, Item{PkgKey: "root", Func: "VerifC05_Tamper", Shape: append([]int{ver, mt}, s...)})
					}
				}
			}
			return it
		},
		Bounds: func(tier string) map[string]string { return map[string]string{} },
		Stubs:  append(append([]string{}, stubCrypto...), stubErrors...),
	})
}

// payload sizes of the 29 MAC commands in spec-table order (harness/root/spec_mac.go)
var specSizes = []int{1, 2, 4, 1, 4, 5, 1, 1, 4, 1, 1, 5, 2, 1, 4, 3, 1, 1, 1, 1, 2, 1, 1, 1, 1, 1, 1, 1, 1}

func init() {
	register(&PropSpec{
		ID:   "C09",
		Pkgs: []string{"root", "clocksync", "multicastsetup", "fragmentation", "firmwaremanagement", "backend"},
		Items: func(tier string, seed int64) []Item {
			var it []Item
			for _, l := range pick(tier, append(rng(0, 24), 29, 30, 45), append(rng(0, 64), 96, 128, 255, 256)) {
				it = append(it, Item{PkgKey: "root", Func: "VerifC09_Frame", Shape: []int{l, pick(tier, []int{2}, []int{3})[0]}})
			}
			for _, l := range pick(tier, []int{0, 4, 8, 12}, []int{0, 1, 2, 3, 4, 8, 12, 16, 20}) {
				it = append(it, Item{PkgKey: "root", Func: "VerifC09_Text", Shape: []int{l}})
			}
			for _, l := range rng(0, 30) {
				it = append(it, Item{PkgKey: "root", Func: "VerifC09_CFList", Shape: []int{l}})
			}
			for _, l := range rng(0, 24) {
				it = append(it, Item{PkgKey: "root", Func: "VerifC09_Payloads", Shape: []int{l}})
			}
			for _, l := range pick(tier, rng(0, 4), rng(0, 6)) {
				it = append(it, Item{PkgKey: "root", Func: "VerifC09_MAC", Shape: []int{l}})
			}
			for i := 0; i < nMacSpecs; i++ {
				for l := 0; l <= 7; l++ {
					it = append(it, Item{PkgKey: "root", Func: "VerifC09_MACPayload", Shape: []int{i, l}})
				}
			}
			for _, n := range pick(tier, rng(0, 36), append(rng(0, 36), 40, 48, 64, 66)) {
				it = append(it, Item{PkgKey: "root", Func: "VerifC09_IdentText", Shape: []int{n}})
			}
			for _, pk := range []string{"clocksync", "multicastsetup", "fragmentation", "firmwaremanagement"} {
				for up := 0; up <= 1; up++ {
					for _, l := range pick(tier, rng(0, 6), rng(0, 8)) {
						it = append(it, Item{PkgKey: pk, Func: "VerifC09_Commands", Shape: []int{up, l}})
					}
				}
			}
			for _, n := range []int{0, 1, 7, 8, 15, 16, 17, 23, 24, 25, 32, 40} {
				it = append(it, Item{PkgKey: "backend", Func: "VerifC17_UnwrapAnyLength", Shape: []int{n}})
			}
			for _, n := range []int{0, 1, 2, 3, 4, 5, 8} {
				it = append(it, Item{PkgKey: "backend", Func: "VerifC17_HEXAnyText", Shape: []int{n}})
			}
			return it
		},
		Bounds: func(tier string) map[string]string { return map[string]string{} },
		Stubs:  append(append([]string{}, stubCrypto...), stubErrors...),
	})
}

func init() {
	register(&PropSpec{
		ID:   "C10",
		Pkgs: []string{"root", "band", "clocksync", "multicastsetup", "fragmentation", "firmwaremanagement"},
		Items: func(tier string, seed int64) []Item {
			var it []Item
			for _, l := range pick(tier, rng(5, 24), rng(5, 40)) {
				it = append(it, Item{PkgKey: "root", Func: "VerifC10_AliasDecode", Shape: []int{l}})
			}
			for _, l := range pick(tier, rng(0, 16), rng(0, 24)) {
				it = append(it, Item{PkgKey: "root", Func: "VerifC10_ReuseFrame", Shape: []int{l}})
			}
			for mt := 0; mt < 4; mt++ {
				for _, s := range dataShapes("quick", 64) {
					it = append(it, Item{PkgKey: "root", Func: "VerifC10_AliasEncode", Shape: append([]int{mt}, s...)})
					it = append(it, Item{PkgKey: "root", Func: "VerifC10_ReadOnly", Shape: append([]int{mt}, s...)})
				}
			}
			for _, l := range rng(1, 5) {
				it = append(it, Item{PkgKey: "root", Func: "VerifC10_AliasMAC", Shape: []int{l}})
			}
			for _, n := range pick(tier, []int{0, 1, 3, 15, 16, 17, 31, 32}, rng(0, 48)) {
				for _, spare := range []int{0, 1, 15, 16, 20} {
					it = append(it, Item{PkgKey: "root", Func: "VerifC10_GuardFRM", Shape: []int{n, spare}})
					if n <= 15 {
						it = append(it, Item{PkgKey: "root", Func: "VerifC10_GuardFOpts", Shape: []int{n, spare}})
					}
				}
			}
			for mt := 0; mt < 2; mt++ {
				for _, n1 := range pick(tier, []int{0, 1, 5}, []int{0, 1, 2, 5, 14}) {
					for _, n2 := range pick(tier, []int{0, 3}, []int{0, 1, 3, 16, 17}) {
						it = append(it, Item{PkgKey: "root", Func: "VerifC10_GuardMarshal", Shape: []int{mt, n1, n2}})
					}
				}
			}
			for i := 0; i < nMacSpecs; i++ {
				it = append(it, Item{PkgKey: "root", Func: "VerifC10_ReuseMAC", Shape: []int{i}})
			}
			it = append(it, Item{PkgKey: "root", Func: "VerifC10_ReuseCFList", Shape: []int{0}}, Item{PkgKey: "root", Func: "VerifC10_ReuseCFList", Shape: []int{1}})
			for _, l := range rng(0, 3) {
				it = append(it, Item{PkgKey: "root", Func: "VerifC10_Locks", Shape: []int{l}})
			}
			// decoded proprietary payloads are independent objects (shared with C07)
			for _, sz := range []int{1, 2, 5} {
				it = append(it, Item{PkgKey: "root", Func: "VerifC07_ProprietaryTwice", Shape: []int{sz}})
			}
			for mt := 0; mt < 4; mt++ {
				for _, nfo := range []int{0, 3, 15} {
					for _, nfr := range pick(tier, []int{0, 1, 15, 16, 17, 32}, []int{0, 1, 15, 16, 17, 31, 32, 33, 48, 64}) {
						it = append(it, Item{PkgKey: "root", Func: "VerifC10_EncryptKeepsCaller", Shape: []int{mt, nfo, nfr}})
					}
				}
			}
			for n := 0; n < 14; n++ {
				for _, steps := range pick(tier, []int{1, 2}, []int{1, 2, 3}) {
					it = append(it, Item{PkgKey: "band", Func: "VerifC10_BandSharing", Shape: []int{n, steps}})
				}
			}
			for _, pk := range []string{"clocksync", "multicastsetup", "fragmentation", "firmwaremanagement"} {
				for up := 0; up <= 1; up++ {
					for idx := 0; idx <= 5; idx++ {
						for _, l := range []int{1, 2, 5, 10} {
							it = append(it, Item{PkgKey: pk, Func: "VerifC10_ReusePayload", Shape: []int{up, idx, l}})
							it = append(it, Item{PkgKey: pk, Func: "VerifC10_AliasPayload", Shape: []int{up, idx, l}})
						}
					}
				}
			}
			return it
		},
		Bounds: func(tier string) map[string]string { return map[string]string{} },
		Stubs:  append(append([]string{"sync.RWMutex: lock-state counters (no scheduler: interleavings are not explored; lock discipline is checked on every access of the registry maps)"}, stubCrypto...), stubErrors...),
	})
}

func init() {
	type pkgT struct {
		key   string
		rt    [][]int // RoundTrip / NoPanic tuples (up, idx, variant)
		npExt [][]int // extra NoPanic-only tuples
		seqUp []int
		seqDn []int
		last  map[int]bool // sequence arguments only allowed in last position (not self-delimiting by wire format)
	}
	var frag [][]int
	for _, v := range []int{0, 1, 2, 5, 16, 64} {
		frag = append(frag, []int{0, 4, v})
	}
	pk := []pkgT{
		{key: "clocksync", rt: [][]int{{1, 0, 0}, {1, 1, 0}, {1, 2, 0}, {0, 0, 0}, {0, 1, 0}, {0, 2, 0}, {0, 3, 0}}, seqUp: []int{-1, 0, 1, 2}, seqDn: []int{-1, 0, 1, 2, 3}},
		{key: "multicastsetup", rt: [][]int{{0, 0, 0}, {0, 1, 0}, {0, 2, 0}, {0, 3, 0}, {0, 4, 0}, {0, 5, 0}, {1, 0, 0}, {1, 1, 0}, {1, 1, 1}, {1, 1, 2}, {1, 1, 3}, {1, 1, 4}, {1, 2, 0}, {1, 3, 0}, {1, 4, 0}, {1, 4, 1}, {1, 5, 0}, {1, 5, 1}},
			npExt: [][]int{{1, 1, 5}}, seqUp: []int{-1, 0, 1, 101, 201, 301, 401, 2, 3, 4, 104, 5, 105}, seqDn: []int{-1, 0, 1, 2, 3, 4, 5}},
		{key: "fragmentation", rt: append([][]int{{1, 0, 0}, {1, 1, 0}, {1, 2, 0}, {1, 3, 0}, {0, 0, 0}, {0, 1, 0}, {0, 2, 0}, {0, 3, 0}}, frag...),
			seqUp: []int{-1, 0, 1, 2, 3}, seqDn: []int{-1, 0, 1, 2, 3, 4, 104, 304}, last: map[int]bool{4: true, 104: true, 304: true}},
		{key: "firmwaremanagement", rt: [][]int{{1, 0, 0}, {1, 1, 0}, {1, 2, 0}, {1, 3, 0}, {1, 4, 0}, {1, 4, 1}, {1, 5, 0}, {0, 0, 0}, {0, 1, 0}, {0, 1, 1}, {0, 2, 0}, {0, 3, 0}, {0, 4, 0}, {0, 4, 1}, {0, 5, 0}},
			seqUp: []int{-1, 0, 1, 2, 3, 4, 104, 5}, seqDn: []int{-1, 0, 1, 101, 2, 3, 4, 104, 5}},
	}
	register(&PropSpec{
		ID:   "C18",
		Pkgs: []string{"clocksync", "multicastsetup", "fragmentation", "firmwaremanagement"},
		Items: func(tier string, seed int64) []Item {
			var it []Item
			for _, p := range pk {
				for _, t := range p.rt {
					it = append(it, Item{PkgKey: p.key, Func: "VerifC18_RoundTrip", Shape: t})
					it = append(it, Item{PkgKey: p.key, Func: "VerifC18_NoPanic", Shape: t})
				}
				for _, t := range p.npExt {
					it = append(it, Item{PkgKey: p.key, Func: "VerifC18_NoPanic", Shape: t})
				}
				for up := 0; up <= 1; up++ {
					set := p.seqDn
					if up == 1 {
						set = p.seqUp
					}
					for _, a := range set {
						for _, b := range set {
							if a == -1 && b == -1 {
								continue
							}
							// a command that takes all remaining bytes by wire format (DataFragment) can only be last
							if p.last[a] && b >= 0 {
								continue
							}
							it = append(it, Item{PkgKey: p.key, Func: "VerifC18_Seq", Shape: []int{up, a, b}})
						}
					}
				}
			}
			for w := 0; w < 5; w++ {
				it = append(it, Item{PkgKey: "multicastsetup", Func: "VerifC18_Keys", Shape: []int{w}})
				for w2 := 0; w2 < 5; w2++ {
					it = append(it, Item{PkgKey: "multicastsetup", Func: "VerifC18_KeysTwice", Shape: []int{w, w2}})
				}
			}
			return it
		},
		Bounds: func(tier string) map[string]string { return map[string]string{} },
		Stubs:  append(append([]string{}, stubCrypto...), stubErrors...),
	})
}

func init() {
	cv := int(SolverCVC5) + 1
	register(&PropSpec{
		ID:   "C17",
		Pkgs: []string{"backend"},
		Items: func(tier string, seed int64) []Item {
			var it []Item
			// Frequency: the whole range 0..2^32 Hz in one query (bit-precise FP first; the proof is completed in the
			// real rounding-error model when the bit-precise query times out), plus one bit-precise window
			it = append(it, Item{PkgKey: "backend", Func: "VerifC17_Frequency", Shape: []int{-1}, Solver: cv})
			it = append(it, Item{PkgKey: "backend", Func: "VerifC17_Percentage", Shape: []int{100}, Solver: cv})
			it = append(it, Item{PkgKey: "backend", Func: "VerifC17_Percentage", Shape: []int{pick(tier, []int{1000}, []int{1000000})[0]}, Solver: cv})
			for _, n := range pick(tier, []int{0, 1, 2, 8, 16}, rng(0, 24)) {
				it = append(it, Item{PkgKey: "backend", Func: "VerifC17_HEXBytes", Shape: []int{n, 0}}, Item{PkgKey: "backend", Func: "VerifC17_HEXBytes", Shape: []int{n, 1}})
			}
			for _, l := range []int{16, 24, 32} {
				it = append(it, Item{PkgKey: "backend", Func: "VerifC17_Envelope", Shape: []int{l}})
				it = append(it, Item{PkgKey: "backend", Func: "VerifC17_UnwrapIff", Shape: []int{l}})
				it = append(it, Item{PkgKey: "backend", Func: "VerifC17_UnwrapIffRel", Shape: []int{l}})
			}
			it = append(it, Item{PkgKey: "backend", Func: "VerifC17_EnvelopeClear", Shape: []int{0}}, Item{PkgKey: "backend", Func: "VerifC17_EnvelopeClear", Shape: []int{1}})
			it = append(it, Item{PkgKey: "backend", Func: "VerifC17_ISO8601", Shape: []int{0}}, Item{PkgKey: "backend", Func: "VerifC17_ISO8601", Shape: []int{1}})
			for _, n := range []int{0, 1, 7, 8, 15, 16, 17, 23, 24, 25, 32, 40} {
				it = append(it, Item{PkgKey: "backend", Func: "VerifC17_UnwrapAnyLength", Shape: []int{n}})
			}
			for _, n := range []int{0, 1, 2, 3, 4, 5, 8} {
				it = append(it, Item{PkgKey: "backend", Func: "VerifC17_HEXAnyText", Shape: []int{n}})
			}
			return it
		},
		Bounds: func(tier string) map[string]string { return map[string]string{} },
		Stubs: append(append([]string{"encoding/json.Marshal(float64) + strconv.ParseFloat: documented round-trip contract (shortest decimal parses back to the same float64)", "go-aes-key-wrap executed from source over the AES uninterpreted functions"}, stubCrypto...), stubErrors...),
		Outside: []string{"the 20 payload structs through encoding/json (reflection), omitempty behaviour", "ISO8601Time: the calendar digits (time.Format / time.Parse are modelled at the level of 'wall-clock second + zone designator'), instants outside 1970-01-02..2106-02-06, zone offsets that are not whole minutes"},
	})
}

func init() {
	register(&PropSpec{
		ID:        "C16",
		TimeoutMs: 120000, // the confirmation queries with the AES inverse axioms take up to 10 s unloaded
		Pkgs:      []string{"joinserver"},
		Items: func(tier string, seed int64) []Item {
			var it []Item
			for cf := 0; cf <= 1; cf++ {
				for a := 0; a <= 1; a++ {
					for n := 0; n <= 1; n++ {
						it = append(it, Item{PkgKey: "joinserver", Func: "VerifC16_Join", Shape: []int{cf, a, n}})
						for typ := 0; typ <= 2; typ++ {
							it = append(it, Item{PkgKey: "joinserver", Func: "VerifC16_Rejoin", Shape: []int{typ, cf, a, n}})
						}
					}
				}
			}
			for kind := 0; kind <= 2; kind++ {
				for _, l := range []int{0, 16, 24, 32} {
					it = append(it, Item{PkgKey: "joinserver", Func: "VerifC16_HandlerKEK", Shape: []int{kind, l}})
				}
			}
			for form := 0; form <= 2; form++ {
				for on := 0; on <= 1; on++ {
					it = append(it, Item{PkgKey: "joinserver", Func: "VerifC16_IDForms", Shape: []int{form, on}})
				}
			}
			// handler layer (ServeHTTP with the JSON contract model): pairs of requests, one after the other and nested
			for ka := 0; ka <= 5; ka++ {
				for kb := 0; kb <= 5; kb++ {
					for mode := 0; mode <= 2; mode++ {
						it = append(it, Item{PkgKey: "joinserver", Func: "VerifC16_Handler", Shape: []int{ka, kb, mode}})
					}
				}
			}
			return it
		},
		Bounds:  func(tier string) map[string]string { return map[string]string{} },
		Stubs:   append(append([]string{"logrus: no-op", "go-aes-key-wrap executed from source over the AES uninterpreted functions"}, stubCrypto...), stubErrors...),
		Outside: []string{"the JSON text itself (encoding/json is replaced by its contract: the fields present in the text are assigned, absent ones stay; the answer value handed to json.Marshal is what is checked)", "goroutine interleavings other than 'request B runs to completion while request A waits in a call-back'", "HomeNSReq"},
	})
}
