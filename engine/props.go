package main

type PropSpec struct {
	ID          string
	Pkgs        []string
	Items       func(tier string, seed int64) []Item
	Solver      SolverKind
	MaxVisits   int32
	MaxPaths    int
	MaxSteps    int
	TimeoutMs   int
	Bounds      func(tier string) map[string]string
	Stubs       []string
	Outside     []string
	Assumptions []string
}

var props = map[string]*PropSpec{}

func register(p *PropSpec) { props[p.ID] = p }

func rng(lo, hi int) []int {
	var r []int
	for i := lo; i <= hi; i++ {
		r = append(r, i)
	}
	return r
}

func pick(tier string, quick, thorough []int) []int {
	if tier == "thorough" {
		return thorough
	}
	return quick
}

var stubCrypto = []string{
	"crypto/aes: uninterpreted functions AES{128,192,256}_E/_D with the inverse axioms D(k,E(k,x))=x, E(k,D(k,y))=y instantiated per application",
	"jacobsa/crypto/cmac: byte accumulator + uninterpreted CMAC_n(key, message) per message length",
}
var stubErrors = []string{"fmt.Errorf/Sprintf, pkg/errors: opaque error/string values (arguments ignored)"}

func init() {
	register(&PropSpec{
		ID:   "C03",
		Pkgs: []string{"root"},
		Items: func(tier string, seed int64) []Item {
			var it []Item
			for _, n := range pick(tier, []int{0, 1, 15, 16, 17, 31, 32, 33, 255}, rng(0, 255)) {
				it = append(it, Item{PkgKey: "root", Func: "VerifC03_FRMFunc", Shape: []int{n}})
			}
			return it
		},
		Bounds: func(tier string) map[string]string { return map[string]string{} },
		Stubs:  append(append([]string{}, stubCrypto...), stubErrors...),
	})
}
