#!/bin/bash
# tools/seed_eval6.sh <ID> [extra check ids...]  - round-6 wrapper: demo dir is read from the "// dir:" comment of the demo
id=$1; shift
wt=/tmp/wt6/$id
dir=$(grep -m1 -E '^// *dir:' $wt/mutants/m1/demo_test.go | sed -E 's,^// *dir: *,,; s,[ \t]*$,,; s,/$,,')
[ -z "$dir" ] && dir=.
exec /verif/tools/seed_eval.sh $wt m1 $id "$dir" "$@"
