#!/usr/bin/env python3
"""tools/seed_save.py <worktree> <mutant> <property> <demo pkg dir> <detected_by> <note>  -> /verif/seeded/<property>-<mutant>/"""
import sys, os, shutil, json, re
wt, m, prop, pkg, det, note = sys.argv[1:7]
saveas = sys.argv[7] if len(sys.argv) > 7 else m
src = os.path.join(wt, "mutants", m)
dst = os.path.join("/verif/seeded", "%s-%s" % (prop, saveas))
os.makedirs(dst, exist_ok=True)
for f in ("patch.diff", "demo_test.go", "README.md"):
    shutil.copy(os.path.join(src, f), os.path.join(dst, f if f != "demo_test.go" else "demo_test.go.txt"))
readme = open(os.path.join(src, "README.md")).read()
meta = {"property": prop, "mutant": saveas, "demo": "demo_test.go.txt (place as <repo>/%s/zz_demo_test.go)" % pkg,
  "breaks": readme.strip().split("\n\n")[0][:600],
  "confirmed_by_me": "tools/seed_eval.sh: patch applied in a scratch worktree: go build ok, existing suite passes (TestAsyncClient excluded as in the baseline), demo fails with the patch and passes without it",
  "check_result": det, "note": note,
  "how_run": "git -C /repo apply patch.diff; ./check %s quick; git -C /repo checkout -- ." % prop}
json.dump(meta, open(os.path.join(dst, "meta.json"), "w"), indent=1)
print("saved", dst)
