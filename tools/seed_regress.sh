#!/bin/bash
# tools/seed_regress.sh [pattern]: applies every stored seeded change (seeded/<id>/patch.diff) to /repo in turn, runs the
# quick check of its property, reverts, and prints one line per change.  /repo must be clean before and is clean after.
cd "$(dirname "$0")/.." || exit 3
repo=${VERIF_REPO:-/repo}
if [ -n "$(git -C $repo status --porcelain)" ]; then echo "repo not clean"; exit 3; fi
for d in seeded/${1:-*}/; do
  id=$(basename $d); prop=${id%%-*}
  if ! git -C $repo apply "$PWD/$d/patch.diff" 2>/dev/null; then echo "$id APPLY-FAILED"; continue; fi
  s=$(date +%s)
  out=$(timeout 1500 ./check $prop quick 2>&1); rc=$?
  git -C $repo checkout -- . ; git -C $repo clean -fdq
  e=$(date +%s)
  if [ $rc -eq 1 ] && echo "$out" | grep -q "^VIOLATION property=$prop"; then r=DETECTED
  elif echo "$out" | grep -q "^INCONCLUSIVE"; then r=INCONCLUSIVE
  else r="missed(rc=$rc)"; fi
  echo "$id $r $((e-s))s"
done
