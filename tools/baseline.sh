#!/bin/sh
# Runs the repository test-suite (guard off) and compares the set of passing tests with BASELINE.json
export GOFLAGS=-mod=mod GOPROXY=off GOSUMDB=off GOTOOLCHAIN=local
cd /repo && go test -json -vet=off -count=1 -timeout 25m ./... 2>/dev/null | python3 -c '
import sys,json
base=set(json.load(open("/root/.vp/BASELINE.json"))["stable_pass"])
ok=set()
for l in sys.stdin:
    try: e=json.loads(l)
    except: continue
    if e.get("Action")=="pass" and e.get("Test"):
        ok.add(e["Package"]+"::"+e["Test"])
miss=base-ok
print("baseline",len(base),"passing now",len(ok&base),"missing",sorted(miss)[:10])
sys.exit(1 if miss else 0)
'
