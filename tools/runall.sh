#!/bin/sh
# runs every registered check of the given tier (default quick) and prints one summary line per property
tier=${1:-quick}
cd "$(dirname "$0")/.." || exit 3
for id in $(python3 -c "import json;print(' '.join(c['property_id'] for c in json.load(open('MANIFEST.json'))['checks']))") $EXTRA; do
  s=$(date +%s)
  out=$(./check $id $tier 2>&1 | grep -E "^(OK|VIOLATION|INCONCLUSIVE|KNOWN-FINDING)" | cut -c1-220)
  rc=$?
  e=$(date +%s)
  echo "== $id $((e-s))s"
  echo "$out" | tail -4
done
