#!/usr/bin/env python3
"""Regenerates the harness inventory table of DESIGN.md Appendix D from harness/*/*.go."""
import re, glob, os, collections
os.chdir(os.path.join(os.path.dirname(__file__), ".."))
tab = collections.defaultdict(list)
for f in sorted(glob.glob("harness/*/*.go")):
    pk = f.split("/")[1]
    for m in re.finditer(r"^func Verif(C\d\d|Hist)_(\w+)\(([^)]*)\)", open(f).read(), re.M):
        args = ", ".join(a.strip().split(" ")[0] for a in re.sub(r"\s+(int|bool)\b", "", m.group(3)).split(",") if a.strip())
        tab[(m.group(1), pk)].append("`%s(%s)`" % (m.group(2), args))
rows = ["| Property | Package key | Entry points |", "|---|---|---|"]
for (pid, pk), l in sorted(tab.items()):
    rows.append("| %s | %s | %s |" % (pid, pk, ", ".join(l)))
s = open("DESIGN.md").read()
a = s.index("| Property | Package key | Entry points |")
b = s.index("`known_findings.json` (committed; read-only at run time):")
open("DESIGN.md", "w").write(s[:a] + "\n".join(rows) + "\n\n" + s[b:])
print(len(rows) - 2, "rows")
