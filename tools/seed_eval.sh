#!/bin/bash
# tools/seed_eval.sh <worktree> <mutant dir name> <property id> <demo package dir relative to repo root> [extra check ids...]
# 1. confirms the seeded change in the scratch worktree (builds, existing tests pass, demo fails with / passes without)
# 2. applies it to /repo, runs the property's quick check (and extra checks), reverts /repo
export GOFLAGS=-mod=mod GOPROXY=off GOSUMDB=off GOTOOLCHAIN=local
wt=$1; m=$2; prop=$3; pkg=${4:-.}; shift 4
runf=""; [ "$pkg" = "backend" ] && runf="-run Demo|demo|Mutant|C17"
md=$wt/mutants/$m
[ -f "$md/patch.diff" ] || { echo "no patch in $md"; exit 2; }
cd "$wt" || exit 2
git checkout -q -- . ; rm -f "$pkg"/zz_demo_test.go
res="id=$prop-$m"
git apply "$md/patch.diff" || { echo "$res APPLY-FAILED"; exit 2; }
go build ./... >/dev/null 2>&1 && res="$res build=ok" || res="$res build=FAIL"
fails=$(go test -vet=off -count=1 $(go list ./... | grep -v /mutants) 2>&1 | grep -E "^(--- FAIL|FAIL)" | grep -v "TestAsyncClient\|lorawan/backend\s\|^FAIL$" | head -3)
[ -z "$fails" ] && res="$res suite=pass" || res="$res suite=FAIL($fails)"
cp "$md/demo_test.go" "$pkg/zz_demo_test.go"
go test -vet=off -count=1 $runf "./$pkg" >/tmp/demo_with.log 2>&1 && res="$res demo_with=PASS(!)" || res="$res demo_with=fail"
git checkout -q -- .
go test -vet=off -count=1 $runf "./$pkg" >/tmp/demo_without.log 2>&1 && res="$res demo_without=pass" || res="$res demo_without=FAIL(!)"
rm -f "$pkg"/zz_demo_test.go
# run the checks against /repo with the change applied
cd /verif; repo=${VERIF_REPO:-/repo}
git -C $repo apply "$md/patch.diff" || { echo "$res REPO-APPLY-FAILED"; exit 2; }
for c in $prop "$@"; do
  out=$(timeout 1500 ./check $c quick 2>&1 | grep -E "^(OK|VIOLATION|INCONCLUSIVE)" | head -2 | cut -c1-260)
  case "$out" in
    VIOLATION*) res="$res $c=DETECTED";;
    OK*) res="$res $c=missed";;
    *) res="$res $c=INCONCLUSIVE";;
  esac
  echo "   [$c] $(echo "$out" | head -1)"
done
git -C $repo checkout -q -- .
echo "$res"
