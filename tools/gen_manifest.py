#!/usr/bin/env python3
"""Regenerates /verif/MANIFEST.json from tools/manifest_texts.json (claimed properties and their texts)."""
import json, os
root = os.path.dirname(os.path.dirname(os.path.abspath(__file__)))
texts = json.load(open(os.path.join(root, "tools", "manifest_texts.json")))
claimed = texts["claimed"]
m = {"version": 1,
 "setup_cmd": "cd engine && GOFLAGS=-mod=mod GOPROXY=off GOSUMDB=off GOTOOLCHAIN=local go build -o ../bin/gosmt . && cd .. && bin/gosmt selftest",
 "hooks": {"guard": "verif", "enable": "none needed: harnesses are injected with go/packages Overlay (symbolic run) and go test -overlay (native replay); /repo carries no hook code", "baseline_off_cmd": "cd /repo && go test -vet=off -count=1 ./...", "source_commits": [], "add_only": True},
 "engines": [{"name": "gosmt", "path": "engine", "serves_properties": sorted(claimed.keys()), "kind_free_text": "bounded symbolic executor for go/ssa (built from /repo's current tree on every run) emitting SMT-LIB2 to z3 5.1 / z3 4.8.12 / cvc5 1.0, with native replay of every model"}],
 "checks": [], "not_applicable": [], "notes": texts.get("notes", "")}
for n in range(1, 21):
    i = "C%02d" % n
    if i in claimed:
        t = claimed[i]
        m["checks"].append({"property_id": i, "quick_cmd": "./check %s quick" % i, "thorough_cmd": "./check %s thorough" % i,
          "evidence_file": "evidence/%s.json" % i, "replay_cmd_template": "./check %s --replay {path}" % i, "engine": "gosmt",
          "level_claimed": {"category": "model_checking", "text": t["text"], "design_ref": t.get("design_ref", "DESIGN.md section 6, " + i)},
          "level_note": t["note"], "technique": t.get("technique", "symbolic execution of go/ssa + SMT (z3/cvc5): unsat = holds for all values in the bound, sat models replayed natively")})
    else:
        m["not_applicable"].append({"property_id": i, "reason": texts["not_applicable"].get(i, "check not built yet (work in progress); to be decided by the same solver-based engine")})
json.dump(m, open(os.path.join(root, "MANIFEST.json"), "w"), indent=1)
print("claimed:", sorted(claimed.keys()))
