package lorawan

// C04: join / rejoin / join-accept MICs and join-accept encryption follow the specification.

func c04First4(c [16]byte) [4]byte { return [4]byte{c[0], c[1], c[2], c[3]} }

// kind: 0 join-request, 1 rejoin-request type 0/2, 2 rejoin-request type 1.
func VerifC04_UpJoinMIC(kind int) {
	key := verifNondetKey("key")
	major := verifNondetU8("major") & 3
	var msg []byte
	p := &PHYPayload{}
	p.MHDR.Major = Major(major)
	switch kind {
	case 0:
		joinEUI, devEUI := EUI64(verifNondet8("joinEUI")), EUI64(verifNondet8("devEUI"))
		nonce := DevNonce(verifNondetU16("devNonce"))
		p.MHDR.MType = JoinRequest
		p.MACPayload = &JoinRequestPayload{JoinEUI: joinEUI, DevEUI: devEUI, DevNonce: nonce}
		msg = append([]byte{byte(JoinRequest)<<5 | major}, specJoinRequestBytes(joinEUI, devEUI, nonce)...)
	case 1:
		typ := verifIteU8(verifNondetBool("type2"), 2, 0)
		netID, devEUI := NetID(verifNondet3("netID")), EUI64(verifNondet8("devEUI"))
		cnt := verifNondetU16("rjCount0")
		p.MHDR.MType = RejoinRequest
		p.MACPayload = &RejoinRequestType02Payload{RejoinType: JoinType(typ), NetID: netID, DevEUI: devEUI, RJCount0: cnt}
		msg = append([]byte{byte(RejoinRequest)<<5 | major}, specRejoin02Bytes(typ, netID, devEUI, cnt)...)
	default:
		joinEUI, devEUI := EUI64(verifNondet8("joinEUI")), EUI64(verifNondet8("devEUI"))
		cnt := verifNondetU16("rjCount1")
		p.MHDR.MType = RejoinRequest
		p.MACPayload = &RejoinRequestType1Payload{RejoinType: 1, JoinEUI: joinEUI, DevEUI: devEUI, RJCount1: cnt}
		msg = append([]byte{byte(RejoinRequest)<<5 | major}, specRejoin1Bytes(joinEUI, devEUI, cnt)...)
	}
	want := c04First4(verifCMAC(key[:], msg))
	err := p.SetUplinkJoinMIC(AES128Key(key))
	verifAssert(err == nil, "SetUplinkJoinMIC: no error")
	verifAssert(p.MIC == MIC(want), "SetUplinkJoinMIC: MIC == AES-CMAC(key, MHDR|payload)[0..3]")
	carried := specCarriedMIC(want)
	p.MIC = MIC(carried)
	ok, err := p.ValidateUplinkJoinMIC(AES128Key(key))
	verifAssert(err == nil, "ValidateUplinkJoinMIC: no error")
	verifAssert(ok == (carried == want), "ValidateUplinkJoinMIC: true exactly when the frame carries the spec MIC")
	verifReach("done")
}

func VerifC04_DownJoinMIC(cf int) {
	key := verifNondetKey("key")
	major := verifNondetU8("major") & 3
	j := newSpecJoinAccept(cf)
	jrType := verifNondetU8("joinReqType")
	joinEUI := EUI64(verifNondet8("joinEUI"))
	nonce := DevNonce(verifNondetU16("devNonce"))
	mhdr := byte(JoinAccept)<<5 | major
	body := append([]byte{mhdr}, j.bytes()...)
	pre := append([]byte{jrType}, specRev8(joinEUI)...)
	pre = append(pre, byte(nonce), byte(nonce>>8))
	w10 := c04First4(verifCMAC(key[:], body))
	w11 := c04First4(verifCMAC(key[:], append(pre, body...)))
	var want [4]byte
	for i := range want {
		want[i] = verifIteU8(j.optNeg, w11[i], w10[i])
	}
	p := &PHYPayload{MHDR: MHDR{MType: JoinAccept, Major: Major(major)}, MACPayload: j.payload()}
	err := p.SetDownlinkJoinMIC(JoinType(jrType), joinEUI, nonce, AES128Key(key))
	verifAssert(err == nil, "SetDownlinkJoinMIC: no error")
	verifAssert(p.MIC == MIC(want), "SetDownlinkJoinMIC: MIC == spec value (OptNeg selects the 1.1 form with JoinReqType|JoinEUI|DevNonce)")
	carried := specCarriedMIC(want)
	p.MIC = MIC(carried)
	ok, err := p.ValidateDownlinkJoinMIC(JoinType(jrType), joinEUI, nonce, AES128Key(key))
	verifAssert(err == nil, "ValidateDownlinkJoinMIC: no error")
	verifAssert(ok == (carried == want), "ValidateDownlinkJoinMIC: true exactly when the frame carries the spec MIC")
	verifReach("done")
}

func VerifC04_JoinAcceptCrypt(cf int) {
	key := verifNondetKey("key")
	major := verifNondetU8("major") & 3
	j := newSpecJoinAccept(cf)
	mic := verifNondet4("mic")
	pt := append(j.bytes(), mic[:]...)
	// spec ciphertext: AES-decrypt in ECB mode over payload|MIC
	ct := make([]byte, 0, len(pt))
	for i := 0; i+16 <= len(pt); i += 16 {
		var blk [16]byte
		copy(blk[:], pt[i:i+16])
		c := verifAESDec(key[:], blk)
		ct = append(ct, c[:]...)
	}
	p := &PHYPayload{MHDR: MHDR{MType: JoinAccept, Major: Major(major)}, MACPayload: j.payload(), MIC: MIC(mic)}
	err := p.EncryptJoinAcceptPayload(AES128Key(key))
	verifAssert(err == nil, "EncryptJoinAcceptPayload: no error")
	dp, ok := p.MACPayload.(*DataPayload)
	verifAssert(ok, "EncryptJoinAcceptPayload: result stored as DataPayload")
	verifAssert(verifBytesEq(dp.Bytes, ct[:len(ct)-4]), "EncryptJoinAcceptPayload: ciphertext == AES-decrypt(key, payload|MIC) per block")
	verifAssert(verifBytesEq(p.MIC[:], ct[len(ct)-4:]), "EncryptJoinAcceptPayload: encrypted MIC == last 4 ciphertext bytes")
	// the device recovers the plaintext with AES-encrypt; DecryptJoinAcceptPayload does the same
	err = p.DecryptJoinAcceptPayload(AES128Key(key))
	verifAssert(err == nil, "DecryptJoinAcceptPayload: no error")
	verifAssert(p.MIC == MIC(mic), "DecryptJoinAcceptPayload: MIC restored")
	ja, ok := p.MACPayload.(*JoinAcceptPayload)
	verifAssert(ok, "DecryptJoinAcceptPayload: payload parsed as JoinAcceptPayload")
	back, err := ja.MarshalBinary()
	verifAssert(err == nil, "DecryptJoinAcceptPayload: recovered payload re-encodes")
	verifAssert(verifBytesEq(back, j.bytes()), "DecryptJoinAcceptPayload: recovered payload == original (12 / 28 byte form)")
	verifReach("done")
}
