package lorawan

// C03: FRMPayload / FOpts encryption equals the spec keystream and is an involution.

func VerifC03_FRMFunc(n int) {
	key := verifNondetKey("key")
	up := verifNondetBool("uplink")
	addr := DevAddr(verifNondet4("devaddr"))
	fcnt := verifNondetU32("fcnt")
	pt := verifNondetBytes("pt", n)
	want := specFRMCrypt(key, up, addr, fcnt, pt)
	got, err := EncryptFRMPayload(AES128Key(key), up, addr, fcnt, verifCopy(pt))
	verifAssert(err == nil, "EncryptFRMPayload: no error")
	verifAssert(len(got) == n, "EncryptFRMPayload: length preserved")
	verifAssert(verifBytesEq(got, want), "EncryptFRMPayload: output == pt xor spec keystream")
	back, err2 := EncryptFRMPayload(AES128Key(key), up, addr, fcnt, verifCopy(got))
	verifAssert(err2 == nil, "EncryptFRMPayload (2nd): no error")
	verifAssert(verifBytesEq(back, pt), "EncryptFRMPayload: applying twice restores the plaintext")
	verifReach("done")
}

func VerifC03_FOptsFunc(n int) {
	key := verifNondetKey("key")
	afcnt := verifNondetBool("aFCntDown")
	up := verifNondetBool("uplink")
	addr := DevAddr(verifNondet4("devaddr"))
	fcnt := verifNondetU32("fcnt")
	pt := verifNondetBytes("pt", n)
	got, err := EncryptFOpts(AES128Key(key), afcnt, up, addr, fcnt, verifCopy(pt))
	if n > 15 {
		verifAssert(err != nil, "EncryptFOpts: more than 15 bytes is rejected")
		verifReach("rejected")
		return
	}
	want := specFOptsCrypt(key, afcnt, up, addr, fcnt, pt)
	verifAssert(err == nil, "EncryptFOpts: no error")
	verifAssert(verifBytesEq(got, want), "EncryptFOpts: output == pt xor spec FOpts keystream block")
	back, err2 := EncryptFOpts(AES128Key(key), afcnt, up, addr, fcnt, verifCopy(got))
	verifAssert(err2 == nil, "EncryptFOpts (2nd): no error")
	verifAssert(verifBytesEq(back, pt), "EncryptFOpts: applying twice restores the plaintext")
	verifReach("done")
}

func c03MType(mt int) MType {
	switch mt {
	case 0:
		return UnconfirmedDataUp
	case 1:
		return UnconfirmedDataDown
	case 2:
		return ConfirmedDataUp
	}
	return ConfirmedDataDown
}

// PHYPayload.EncryptFRMPayload / DecryptFRMPayload: success => the stored bytes are the spec transform.
func VerifC03_PHYFRM(mt, fpMode, n int) {
	d := newSpecData(c03MType(mt), 0, fpMode, n)
	key := verifNondetKey("key")
	p := d.phy()
	err := p.EncryptFRMPayload(AES128Key(key))
	verifAssert(err == nil, "PHYPayload.EncryptFRMPayload: no error")
	mp := p.MACPayload.(*MACPayload)
	if n == 0 || fpMode == 0 {
		verifAssert(len(mp.FRMPayload) == 0, "PHYPayload.EncryptFRMPayload: empty payload stays empty")
		verifReach("empty")
		return
	}
	want := specFRMCrypt(key, specIsUplink(d.mtype), d.addr, d.fcnt, d.frm)
	verifAssert(len(mp.FRMPayload) == 1, "PHYPayload.EncryptFRMPayload: one payload stored")
	dp, ok := mp.FRMPayload[0].(*DataPayload)
	verifAssert(ok, "PHYPayload.EncryptFRMPayload: stored as DataPayload")
	verifAssert(verifBytesEq(dp.Bytes, want), "PHYPayload.EncryptFRMPayload: stored bytes == spec ciphertext")
	if fpMode == 2 {
		err = p.DecryptFRMPayload(AES128Key(key))
		verifAssert(err == nil, "PHYPayload.DecryptFRMPayload: no error")
		mp = p.MACPayload.(*MACPayload)
		verifAssert(len(mp.FRMPayload) == 1, "PHYPayload.DecryptFRMPayload: one payload stored")
		dp2, ok2 := mp.FRMPayload[0].(*DataPayload)
		verifAssert(ok2, "PHYPayload.DecryptFRMPayload: stored as DataPayload")
		verifAssert(verifBytesEq(dp2.Bytes, d.frm), "PHYPayload.DecryptFRMPayload: restores the plaintext")
	}
	verifReach("done")
}

// PHYPayload.EncryptFOpts: AFCntDown variant exactly for downlinks with FPort > 0.
func VerifC03_PHYFOpts(mt, fpMode, n int) {
	nFRM := 0
	if fpMode == 2 {
		nFRM = 3
	}
	if fpMode == 3 { // FPort > 0 with an empty FRMPayload
		fpMode = 2
	}
	d := newSpecData(c03MType(mt), n, fpMode, nFRM)
	key := verifNondetKey("key")
	p := d.phy()
	err := p.EncryptFOpts(AES128Key(key))
	mp := p.MACPayload.(*MACPayload)
	if n == 0 {
		verifAssert(err == nil, "PHYPayload.EncryptFOpts: no error on empty FOpts")
		verifAssert(len(mp.FHDR.FOpts) == 0, "PHYPayload.EncryptFOpts: empty FOpts stay empty")
		verifReach("empty")
		return
	}
	if n > 15 {
		verifAssert(err != nil, "PHYPayload.EncryptFOpts: more than 15 bytes is rejected")
		err = d.phy().DecryptFOpts(AES128Key(key))
		verifAssertKnown("C03-decryptfopts-swallows-error", true, err != nil, "PHYPayload.DecryptFOpts: reports the error of the failed transform instead of success")
		verifReach("rejected")
		return
	}
	up := specIsUplink(d.mtype)
	afcnt := !up && fpMode == 2
	want := specFOptsCrypt(key, afcnt, up, d.addr, d.fcnt, d.fopts)
	verifAssert(err == nil, "PHYPayload.EncryptFOpts: no error")
	verifAssert(len(mp.FHDR.FOpts) == 1, "PHYPayload.EncryptFOpts: one payload stored")
	dp, ok := mp.FHDR.FOpts[0].(*DataPayload)
	verifAssert(ok, "PHYPayload.EncryptFOpts: stored as DataPayload")
	verifAssert(verifBytesEq(dp.Bytes, want), "PHYPayload.EncryptFOpts: stored bytes == spec ciphertext (A[4] variant by direction and FPort)")
	verifReach("done")
}
