package lorawan

// C03: FRMPayload / FOpts encryption equals the spec keystream and is an involution.

func VerifC03_FRMFunc(n int) {
	key := verifNondetKey("key")
	up := verifNondetBool("uplink")
	addr := DevAddr(verifNondet4("devaddr"))
	fcnt := verifNondetU32("fcnt")
	pt := verifNondetBytes("pt", n)
	want := specFRMCrypt(key, up, addr, fcnt, pt)
	got, err := EncryptFRMPayload(AES128Key(key), up, addr, fcnt, verifCopy(pt))
	verifAssert(err == nil, "EncryptFRMPayload: no error")
	verifAssert(len(got) == n, "EncryptFRMPayload: length preserved")
	verifAssert(verifBytesEq(got, want), "EncryptFRMPayload: output == pt xor spec keystream")
	back, err2 := EncryptFRMPayload(AES128Key(key), up, addr, fcnt, verifCopy(got))
	verifAssert(err2 == nil, "EncryptFRMPayload (2nd): no error")
	verifAssert(verifBytesEq(back, pt), "EncryptFRMPayload: applying twice restores the plaintext")
	verifReach("done")
}
