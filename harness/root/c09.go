package lorawan

// C09: decoders are total - any bytes give a value or an error, never a panic or a hang, and the input
// buffer is left as it was. Panics and unbounded loops are engine obligations (every index / slice / nil /
// division is checked on every path; loops are unwound under an unwinding assertion); the harnesses add the
// "input buffer unchanged" assertions.

func c09Unchanged(data, orig []byte, what string) {
	// data is a window of a larger buffer (spare capacity behind it): the whole backing buffer must stay as it was
	verifAssert(verifBytesEq(data[:cap(data)], orig), what+": neither the input buffer nor the memory behind it is modified")
}

const c09Spare = 6

// c09Input: L symbolic bytes as a sub-slice of a buffer with c09Spare more (symbolic) bytes behind it.
func c09Input(name string, L int) (data, orig []byte) {
	orig = verifNondetBytes(name, L+c09Spare)
	buf := verifCopy(orig)
	return buf[:L], orig
}

// Frame decode followed by every decode / decrypt step that applies to the decoded frame.
func VerifC09_Frame(L, c09MaxStream int) {
	data, orig := c09Input("data", L)
	key := AES128Key(verifNondetKey("key"))
	var p PHYPayload
	err := p.UnmarshalBinary(data)
	c09Unchanged(data, orig, "PHYPayload.UnmarshalBinary")
	if err != nil {
		verifReach("rejected")
		return
	}
	switch p.MHDR.MType {
	case JoinAccept:
		p.DecryptJoinAcceptPayload(key)
		c09Unchanged(data, orig, "DecryptJoinAcceptPayload")
		verifReach("join-accept")
	case UnconfirmedDataUp, UnconfirmedDataDown, ConfirmedDataUp, ConfirmedDataDown:
		// bound: MAC-command streams longer than c09MaxStream bytes are decoded only in VerifC09_MAC / C07
		// (18 ways per command); here such frames are decoded / decrypted without the command decoding step
		mp := p.MACPayload.(*MACPayload)
		fo, _ := c01Bytes(mp.FHDR.FOpts)
		fr, _ := c01Bytes(mp.FRMPayload)
		if len(fo) > c09MaxStream {
			verifReach("data-long-fopts")
			return
		}
		if len(fr) > c09MaxStream && mp.FPort != nil {
			verifAssume(*mp.FPort != 0)
		}
		step := verifNondetU8("step") & 3
		switch step {
		case 0:
			p.DecodeFOptsToMACCommands()
			c09Unchanged(data, orig, "DecodeFOptsToMACCommands")
			if len(fr) <= c09MaxStream {
				p.DecodeFRMPayloadToMACCommands()
				c09Unchanged(data, orig, "DecodeFRMPayloadToMACCommands")
			}
		case 1:
			p.DecryptFOpts(key)
			c09Unchanged(data, orig, "DecryptFOpts")
		case 2:
			p.DecryptFRMPayload(key)
			c09Unchanged(data, orig, "DecryptFRMPayload")
		default:
			p.ValidateUplinkDataMIC(LoRaWAN1_1, 0, 0, 0, key, key)
			p.ValidateDownlinkDataMIC(LoRaWAN1_1, 0, key)
			c09Unchanged(data, orig, "Validate*DataMIC")
		}
		verifReach("data")
	default:
		p.ValidateUplinkJoinMIC(key)
		c09Unchanged(data, orig, "ValidateUplinkJoinMIC")
		verifReach("other")
	}
}

// Text form: base64 contract stub (decoding yields an error or arbitrary bytes of any length up to 3n/4).
func VerifC09_Text(n int) {
	text, orig := c09Input("text", n)
	var p PHYPayload
	p.UnmarshalText(text)
	c09Unchanged(text, orig, "PHYPayload.UnmarshalText")
	verifReach("done")
}

func VerifC09_CFList(L int) {
	data, orig := c09Input("data", L)
	var l CFList
	l.UnmarshalBinary(data)
	c09Unchanged(data, orig, "CFList.UnmarshalBinary")
	var ja JoinAcceptPayload
	ja.UnmarshalBinary(false, data)
	c09Unchanged(data, orig, "JoinAcceptPayload.UnmarshalBinary")
	verifReach("done")
}

// Every payload type's decoder with an arbitrary number of bytes.
func VerifC09_Payloads(L int) {
	data, orig := c09Input("data", L)
	up := verifNondetBool("uplink")
	var jr JoinRequestPayload
	jr.UnmarshalBinary(up, data)
	var r02 RejoinRequestType02Payload
	r02.UnmarshalBinary(up, data)
	var r1 RejoinRequestType1Payload
	r1.UnmarshalBinary(up, data)
	var dp DataPayload
	dp.UnmarshalBinary(up, data)
	var mh MHDR
	mh.UnmarshalBinary(data)
	var fc FCtrl
	fc.UnmarshalBinary(data)
	var fh FHDR
	fh.UnmarshalBinary(up, data)
	var mp MACPayload
	mp.UnmarshalBinary(up, data)
	var e EUI64
	e.UnmarshalBinary(data)
	var a DevAddr
	a.UnmarshalBinary(data)
	var n NetID
	n.UnmarshalBinary(data)
	var k AES128Key
	k.UnmarshalBinary(data)
	var dn DevNonce
	dn.UnmarshalBinary(data)
	var jn JoinNonce
	jn.UnmarshalBinary(data)
	var cm ChMask
	cm.UnmarshalBinary(data)
	var dl DLSettings
	dl.UnmarshalBinary(data)
	c09Unchanged(data, orig, "payload decoders")
	verifReach("done")
}

// A single MAC command and a MAC-command stream of arbitrary bytes (direction symbolic).
func VerifC09_MAC(L int) {
	data, orig := c09Input("data", L)
	up := verifNondetBool("uplink")
	var mc MACCommand
	mc.UnmarshalBinary(up, data)
	c09Unchanged(data, orig, "MACCommand.UnmarshalBinary")
	decodeDataPayloadToMACCommands(up, []Payload{&DataPayload{Bytes: data}})
	c09Unchanged(data, orig, "MAC-command stream decoder")
	verifAssert(verifLocksReleased(), "the MAC-command decoders release the registry lock on every path (else a later registration, and then every decoder, blocks for ever)")
	verifNoGlobalWritesExcept("") // C10: no hidden package-level state is written
	verifReach("done")
}

// Every registered MAC payload decoder with every length 0..L (the size table must not be trusted by the decoders).
func VerifC09_MACPayload(idx, L int) {
	s := &macSpecs[idx]
	data, orig := c09Input("data", L)
	p, _, err := GetMACPayloadAndSize(s.uplink, s.cid)
	verifAssert(err == nil, "registered")
	err = p.UnmarshalBinary(data)
	verifAssert((err == nil) == (L == s.size), s.name+": exactly the spec size is accepted")
	c09Unchanged(data, orig, s.name+".UnmarshalBinary")
	verifReach("done")
}

// Identifier text decoders on arbitrary text.
func VerifC09_IdentText(n int) {
	text, orig := c09Input("text", n)
	var e EUI64
	e.UnmarshalText(text)
	var a DevAddr
	a.UnmarshalText(text)
	var id NetID
	id.UnmarshalText(text)
	var k AES128Key
	k.UnmarshalText(text)
	var dl DLSettings
	dl.UnmarshalText(text)
	c09Unchanged(text, orig, "identifier UnmarshalText")
	verifReach("done")
}
