package lorawan

// C06: wire format of MAC commands / headers against the table-driven spec model.

func VerifC06_Enc(idx int) {
	s := &macSpecs[idx]
	vals := s.draw(false)
	p := mkPayload(s, vals)
	b, err := p.MarshalBinary()
	verifAssert(err == nil, s.name+": encoding in-range field values succeeds")
	verifAssert(len(b) == s.size, s.name+": encoded length == spec size")
	verifAssert(leInt(b) == s.pack(vals), s.name+": encoded bytes == spec bit layout")
	mc := MACCommand{CID: s.cid, Payload: p}
	mb, err := mc.MarshalBinary()
	verifAssert(err == nil, s.name+": MACCommand encoding succeeds")
	verifAssert(len(mb) == 1+s.size, s.name+": MACCommand length == 1 + spec size")
	verifAssert(mb[0] == byte(s.cid), s.name+": first byte is the CID")
	verifAssert(leInt(mb[1:]) == s.pack(vals), s.name+": MACCommand payload bytes == spec bit layout")
	verifReach("done")
}

func VerifC06_Dec(idx int) {
	s := &macSpecs[idx]
	data := verifNondetBytes("data", s.size)
	p, size, err := GetMACPayloadAndSize(s.uplink, s.cid)
	verifAssert(err == nil, s.name+": registered for its direction")
	verifAssert(size == s.size, s.name+": registered size == spec size")
	err = p.UnmarshalBinary(verifCopy(data))
	verifAssert(err == nil, s.name+": decoding spec-sized bytes succeeds")
	c06CheckDecoded(s, p, data)
	verifReach("done")
}

func c06CheckDecoded(s *mSpec, p MACCommandPayload, data []byte) {
	got, ok := rdPayload(s, p)
	verifAssert(ok, s.name+": registry constructs the payload type of this command")
	if !ok {
		return
	}
	x := leInt(data)
	want := s.unpack(x)
	rfuSet := !s.rfuClear(x)
	for i, f := range s.fields {
		label := s.name + "." + f.name + ": decoded value == spec field value, reserved bits ignored"
		switch {
		case s.name == "DeviceTimeAns":
			if i == 0 {
				verifAssert(got[0] == uint64(specDeviceTime(want[0], want[1])), "DeviceTimeAns: decoded duration == seconds + fraction/256")
			}
		case f.kind == mfU4or255:
			// 1.0.x defines 255 besides 0..15: both readings of the byte are accepted
			verifAssert(verifOr(got[i] == want[i], got[i] == x&0xff), label)
		default:
			verifAssertKnown("C06-rfu-"+s.name, rfuSet, got[i] == want[i], label)
		}
	}
}

// DecStream: the FOpts / port-0 FRMPayload field is the plain concatenation CID | payload | CID | payload ...; two
// spec-sized commands of one direction with arbitrary payload bytes, laid out by the table, must decode into exactly
// those two commands with the table's field values - the decoding of the first must not disturb the bytes of the
// second (the stream sits inside a longer buffer, as FOpts sits inside a received frame).
func VerifC06_DecStream(i1, i2 int) {
	s1, s2 := &macSpecs[i1], &macSpecs[i2]
	d1 := verifNondetBytes("data1", s1.size)
	d2 := verifNondetBytes("data2", s2.size)
	tail := verifNondetBytes("tail", 2)
	var frame []byte
	frame = append(frame, byte(s1.cid))
	frame = append(frame, d1...)
	frame = append(frame, byte(s2.cid))
	frame = append(frame, d2...)
	L := len(frame)
	frame = append(frame, tail...)
	out, err := decodeDataPayloadToMACCommands(s1.uplink, []Payload{&DataPayload{Bytes: frame[:L]}})
	verifAssert(err == nil, "stream of two spec-sized commands decodes")
	verifAssert(len(out) == 2, "stream of two spec-sized commands decodes into two commands")
	if len(out) != 2 {
		return
	}
	for k, s := range []*mSpec{s1, s2} {
		mc, ok := out[k].(*MACCommand)
		verifAssert(ok, "stream element is a MACCommand")
		if !ok {
			return
		}
		verifAssert(mc.CID == s.cid, s.name+": CID at its position in the stream")
		verifAssert(mc.Payload != nil, s.name+": decoded with its payload")
		if mc.Payload != nil {
			c06CheckDecoded(s, mc.Payload, [][]byte{d1, d2}[k])
		}
	}
	verifAssert(verifAnd(frame[L] == tail[0], frame[L+1] == tail[1]), "decoding a command stream leaves the bytes behind it alone")
	verifReach("done")
}

// Registry: for every CID x direction the registered size is the table size, and only table entries are registered.
func VerifC06_Registry(up int) {
	cid := verifNondetU8("cid")
	_, size, err := GetMACPayloadAndSize(up != 0, CID(cid))
	found := false
	for i := range macSpecs {
		s := &macSpecs[i]
		if s.uplink != (up != 0) {
			continue
		}
		if cid == byte(s.cid) {
			found = true
			verifAssert(err == nil, "registry: every payload-carrying command of the spec is registered")
			verifAssert(size == s.size, "registry: registered size == spec size")
		}
	}
	if !found {
		verifAssert(err != nil, "registry: nothing else is registered")
	}
	verifReach("done")
}

// Frame header bytes: all 256 MHDR and FCtrl bytes.
func VerifC06_MHDR() {
	b := verifNondetU8("mhdr")
	var h MHDR
	err := h.UnmarshalBinary([]byte{b})
	verifAssert(err == nil, "MHDR decodes")
	verifAssert(byte(h.MType) == b>>5, "MHDR.MType == bits 7..5")
	verifAssert(byte(h.Major) == b&3, "MHDR.Major == bits 1..0")
	out, err := h.MarshalBinary()
	verifAssert(err == nil, "MHDR encodes")
	verifAssert(len(out) == 1, "MHDR is one byte")
	// a header built from field values carries zero RFU bits (what a sender must transmit); what a decoded header
	// re-encodes in its RFU bits is not C06's business (C05: the MIC of a received frame is taken over the received header)
	fresh, err := MHDR{MType: h.MType, Major: h.Major}.MarshalBinary()
	verifAssert(err == nil && len(fresh) == 1 && fresh[0] == b&0xe3, "an MHDR built from its field values encodes MType | 000 | Major")
	verifAssert(out[0]&0xe3 == b&0xe3, "a decoded MHDR re-encodes its MType and Major bits")
	verifReach("done")
}

func VerifC06_FCtrl() {
	b := verifNondetU8("fctrl")
	var c FCtrl
	err := c.UnmarshalBinary([]byte{b})
	verifAssert(err == nil, "FCtrl decodes")
	verifAssert(c.ADR == (b&0x80 != 0), "FCtrl.ADR == bit 7")
	verifAssert(c.ADRACKReq == (b&0x40 != 0), "FCtrl.ADRACKReq == bit 6")
	verifAssert(c.ACK == (b&0x20 != 0), "FCtrl.ACK == bit 5")
	verifAssert(c.ClassB == (b&0x10 != 0), "FCtrl.ClassB == bit 4")
	verifAssert(c.FPending == (b&0x10 != 0), "FCtrl.FPending == bit 4")
	verifAssert(c.fOptsLen == b&0x0f, "FCtrl.FOptsLen == bits 3..0")
	out, err := c.MarshalBinary()
	verifAssert(err == nil, "FCtrl encodes")
	verifAssert(len(out) == 1, "FCtrl is one byte")
	verifAssert(out[0] == b, "FCtrl re-encodes to the same byte")
	verifReach("done")
}

// CFList decoding from arbitrary 16 bytes (type 0 / type 1).
func VerifC06_CFListDec(kind int) {
	data := verifNondetBytes("cflist", 16)
	verifAssume(data[15] == byte(kind))
	var l CFList
	err := l.UnmarshalBinary(verifCopy(data))
	verifAssert(err == nil, "CFList decodes")
	verifAssert(byte(l.CFListType) == byte(kind), "CFList type byte at offset 15")
	if kind == 0 {
		cp, ok := l.Payload.(*CFListChannelPayload)
		verifAssert(ok, "type 0 is a channel list")
		for i := 0; i < 5; i++ {
			f := (uint32(data[3*i]) | uint32(data[3*i+1])<<8 | uint32(data[3*i+2])<<16) * 100
			verifAssert(cp.Channels[i] == f, "CFList frequency i == 24-bit LE * 100 Hz")
		}
	} else {
		mp, ok := l.Payload.(*CFListChannelMaskPayload)
		verifAssert(ok, "type 1 is a channel-mask list")
		verifAssert(len(mp.ChannelMasks) <= 7, "at most 7 masks decoded")
		for i := range mp.ChannelMasks {
			m := uint16(data[2*i]) | uint16(data[2*i+1])<<8
			verifAssert(mp.ChannelMasks[i] == specChMask(m), "CFList mask i == 16-bit LE mask")
		}
		for i := len(mp.ChannelMasks); i < 7; i++ {
			verifAssert(data[2*i] == 0, "only all-zero trailing masks are dropped (low byte)")
			verifAssert(data[2*i+1] == 0, "only all-zero trailing masks are dropped (high byte)")
		}
	}
	verifReach("done")
}

// Decode - modify - encode: the FOptsLen nibble of FCtrl is the number of FOpts bytes that follow, also for a frame
// value that came out of the decoder and whose FOpts were then changed by the application (hidden decoder state in
// FCtrl must not reach the wire). mode 0: FOpts removed, 1: replaced by one LinkCheckReq / LinkCheckAns-free CID
// (1 byte), 2: one more 1-byte command appended.
func VerifC06_DecodeModifyEncode(L, mode int) {
	in := verifNondetBytes("frame", L)
	mt := in[0] >> 5
	verifAssume(in[0]&0x1c == 0)
	verifAssume(mt >= 2 && mt <= 5) // data frames
	var p PHYPayload
	if p.UnmarshalBinary(verifCopy(in)) != nil {
		verifReach("rejected")
		return
	}
	mp, ok := p.MACPayload.(*MACPayload)
	verifAssert(ok, "a data frame decodes to a *MACPayload")
	oldN := int(in[5] & 0x0f)
	newN := 0
	switch mode {
	case 0:
		mp.FHDR.FOpts = nil
	case 1:
		mp.FHDR.FOpts = []Payload{&DataPayload{Bytes: []byte{byte(DevStatusReq)}}}
		newN = 1
	case 2:
		if oldN >= 15 {
			verifReach("full")
			return
		}
		mp.FHDR.FOpts = append(mp.FHDR.FOpts, &DataPayload{Bytes: []byte{byte(DevStatusReq)}})
		newN = oldN + 1
	}
	if newN > 0 && mp.FPort != nil && *mp.FPort == 0 {
		verifReach("fport0-with-fopts") // refused by the encoder: FOpts and FPort 0 exclude one another
		return
	}
	out, err := p.MarshalBinary()
	verifAssert(err == nil, "a decoded data frame whose FOpts were changed still encodes")
	if err != nil {
		return
	}
	verifAssert(len(out) == L-oldN+newN, "encoded length follows the new FOpts length")
	verifAssert(int(out[5]&0x0f) == newN, "FOptsLen nibble of FCtrl == number of FOpts bytes that follow")
	verifAssert(out[5]&0xf0 == in[5]&0xf0, "the flag bits of FCtrl are kept")
	for i := 0; i < 5; i++ {
		verifAssert(out[i] == in[i], "MHDR and DevAddr are kept")
	}
	verifAssert(out[6] == in[6] && out[7] == in[7], "FCnt is kept")
	// what follows FOpts (FPort, FRMPayload, MIC) is kept
	verifAssert(verifBytesEq(out[8+newN:], in[8+oldN:]), "FPort, FRMPayload and MIC are kept")
	verifReach("done")
}
