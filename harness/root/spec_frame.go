package lorawan

// Spec-side construction of data frames (LoRaWAN 1.0.x/1.1 section 4), independent of the
// library's marshalers: MHDR | DevAddr(LE) | FCtrl | FCnt(LE16) | FOpts | [FPort] | FRMPayload.

type specData struct {
	mtype     MType
	major     byte // 2 bits
	addr      DevAddr
	adr       bool
	adrAckReq bool
	ack       bool
	bit4      bool // FPending (down) / ClassB (up)
	fcnt      uint32
	fopts     []byte
	hasPort   bool
	port      uint8
	frm       []byte
}

func specB2U8(b bool, v uint8) uint8 { return verifIteU8(b, v, 0) }

func (d *specData) fctrl() byte {
	return specB2U8(d.adr, 0x80) | specB2U8(d.adrAckReq, 0x40) | specB2U8(d.ack, 0x20) | specB2U8(d.bit4, 0x10) | byte(len(d.fopts))
}

func (d *specData) mhdr() byte { return byte(d.mtype)<<5 | d.major&3 }

// macPayload returns FHDR | FPort | FRMPayload.
func (d *specData) macPayload() []byte {
	out := []byte{d.addr[3], d.addr[2], d.addr[1], d.addr[0], d.fctrl(), byte(d.fcnt), byte(d.fcnt >> 8)}
	out = append(out, d.fopts...)
	if d.hasPort {
		out = append(out, d.port)
		out = append(out, d.frm...)
	}
	return out
}

// msg returns MHDR | MACPayload (the part authenticated by the MIC).
func (d *specData) msg() []byte {
	return append([]byte{d.mhdr()}, d.macPayload()...)
}

// newSpecData draws a symbolic data frame of the given shape.
// fpMode: 0 = no FPort (nFRM must be 0), 1 = FPort 0 (nFOpts must be 0), 2 = FPort 1..255.
func newSpecData(mtype MType, nFOpts, fpMode, nFRM int) *specData {
	d := &specData{mtype: mtype}
	d.major = verifNondetU8("major") & 3
	d.addr = DevAddr(verifNondet4("devaddr"))
	d.adr = verifNondetBool("adr")
	d.adrAckReq = verifNondetBool("adrackreq")
	d.ack = verifNondetBool("ack")
	d.bit4 = verifNondetBool("bit4")
	d.fcnt = verifNondetU32("fcnt")
	d.fopts = verifNondetBytes("fopts", nFOpts)
	switch fpMode {
	case 1:
		d.hasPort = true
		d.port = 0
	case 2:
		d.hasPort = true
		d.port = verifNondetU8("fport")
		verifAssume(d.port > 0)
	}
	if d.hasPort {
		d.frm = verifNondetBytes("frm", nFRM)
	}
	return d
}

func specIsUplink(mt MType) bool {
	return mt == JoinRequest || mt == UnconfirmedDataUp || mt == ConfirmedDataUp || mt == RejoinRequest
}

// phy builds the library value for the spec frame; FOpts / FRMPayload are carried as raw bytes
// (DataPayload), the representation the decoder itself produces.
func (d *specData) phy() *PHYPayload {
	mp := &MACPayload{}
	mp.FHDR.DevAddr = d.addr
	mp.FHDR.FCtrl.ADR = d.adr
	mp.FHDR.FCtrl.ADRACKReq = d.adrAckReq
	mp.FHDR.FCtrl.ACK = d.ack
	if specIsUplink(d.mtype) {
		mp.FHDR.FCtrl.ClassB = d.bit4
	} else {
		mp.FHDR.FCtrl.FPending = d.bit4
	}
	mp.FHDR.FCnt = d.fcnt
	if len(d.fopts) > 0 {
		mp.FHDR.FOpts = []Payload{&DataPayload{Bytes: verifCopy(d.fopts)}}
	}
	if d.hasPort {
		port := d.port
		mp.FPort = &port
		if len(d.frm) > 0 {
			mp.FRMPayload = []Payload{&DataPayload{Bytes: verifCopy(d.frm)}}
		}
	}
	return &PHYPayload{MHDR: MHDR{MType: d.mtype, Major: Major(d.major)}, MACPayload: mp}
}

// ---- MIC (section 4.4) ----

func specBBlock(confFCnt uint16, txDR, txCh, dir byte, addr DevAddr, fcnt uint32, msgLen int) []byte {
	return []byte{0x49, byte(confFCnt), byte(confFCnt >> 8), txDR, txCh, dir,
		addr[3], addr[2], addr[1], addr[0],
		byte(fcnt), byte(fcnt >> 8), byte(fcnt >> 16), byte(fcnt >> 24), 0x00, byte(msgLen)}
}

func specCMAC4(key [16]byte, block []byte, msg []byte) [16]byte {
	return verifCMAC(key[:], append(append([]byte{}, block...), msg...))
}

// specUplinkMIC: 1.0: cmacF[0..3]; 1.1: cmacS[0..1] | cmacF[0..1].
func specUplinkMIC(v11 bool, confFCnt uint32, txDR, txCh byte, fKey, sKey [16]byte, d *specData) (mic [4]byte, cmacF [16]byte) {
	msg := d.msg()
	cmacF = specCMAC4(fKey, specBBlock(0, 0, 0, 0, d.addr, d.fcnt, len(msg)), msg)
	if !v11 {
		copy(mic[:], cmacF[0:4])
		return
	}
	conf := verifIteU16(d.ack, uint16(confFCnt), 0)
	cmacS := specCMAC4(sKey, specBBlock(conf, txDR, txCh, 0, d.addr, d.fcnt, len(msg)), msg)
	mic = [4]byte{cmacS[0], cmacS[1], cmacF[0], cmacF[1]}
	return
}

func specDownlinkMIC(v11 bool, confFCnt uint32, key [16]byte, d *specData) (mic [4]byte) {
	msg := d.msg()
	conf := uint16(0)
	if v11 {
		conf = verifIteU16(d.ack, uint16(confFCnt), 0)
	}
	c := specCMAC4(key, specBBlock(conf, 0, 0, 1, d.addr, d.fcnt, len(msg)), msg)
	copy(mic[:], c[0:4])
	return
}
