package lorawan

// Harnesses added after the fourth round of seeded changes (aliasing between results / arguments and library state,
// nil versus empty, API use in the "other" direction).

// C02 / C05: the downlink MIC functions bind the downlink direction whatever message type the frame value carries
// (a reflected uplink frame must not validate as a downlink under LoRaWAN 1.0, where both directions share a key).
func VerifC02_DownlinkAnyMType(ver, mt int) {
	d := newSpecData(c03MType(mt), 2, 2, 3)
	key := verifNondetKey("sNwkSIntKey")
	confFCnt := verifNondetU32("confFCnt")
	want := specDownlinkMIC(ver != 0, confFCnt, key, d)
	p := d.phy()
	verifAssert(p.SetDownlinkDataMIC(c02Version(ver), confFCnt, AES128Key(key)) == nil, "SetDownlinkDataMIC: no error")
	verifAssert(p.MIC == MIC(want), "SetDownlinkDataMIC: B0 carries the downlink direction for every message type of the frame value")
	carried := specCarriedMIC(want)
	p.MIC = MIC(carried)
	ok, err := p.ValidateDownlinkDataMIC(c02Version(ver), confFCnt, AES128Key(key))
	verifAssert(err == nil, "ValidateDownlinkDataMIC: no error")
	verifAssert(ok == (carried == want), "ValidateDownlinkDataMIC: true exactly when the frame carries the downlink MIC (a frame signed as uplink does not validate as downlink)")
	verifReach("done")
}

// C01: nil and empty (non-nil) lists are the same frame. kind 0: FPort 0, FRMPayload of MAC commands, FOpts = empty
// slice; 1: no FPort, FRMPayload = empty slice; 2: FPort > 0, both lists empty slices.
func VerifC01_EmptyLists(mt, kind int) {
	mtype := c03MType(mt)
	fPort0, fPort := uint8(0), verifNondetU8("fport")
	verifAssume(fPort > 0)
	mp := &MACPayload{FHDR: FHDR{DevAddr: DevAddr(verifNondet4("devaddr")), FCnt: verifNondetU32("fcnt") & 0xffff, FOpts: make([]Payload, 0, 4)}}
	ref := &MACPayload{FHDR: FHDR{DevAddr: mp.FHDR.DevAddr, FCnt: mp.FHDR.FCnt}}
	switch kind {
	case 0:
		cmd := &MACCommand{CID: DevStatusReq}
		if specIsUplink(mtype) {
			cmd = &MACCommand{CID: LinkCheckReq}
		}
		mp.FPort, ref.FPort = &fPort0, &fPort0
		mp.FRMPayload, ref.FRMPayload = []Payload{cmd}, []Payload{cmd}
	case 1:
		mp.FRMPayload = []Payload{}
	case 2:
		mp.FPort, ref.FPort = &fPort, &fPort
		mp.FRMPayload = make([]Payload, 0, 2)
	}
	p := PHYPayload{MHDR: MHDR{MType: mtype, Major: LoRaWANR1}, MACPayload: mp, MIC: MIC(verifNondet4("mic"))}
	q := PHYPayload{MHDR: p.MHDR, MACPayload: ref, MIC: p.MIC}
	a, errA := p.MarshalBinary()
	b, errB := q.MarshalBinary()
	verifAssert(errB == nil, "the frame with nil lists encodes")
	verifAssert(errA == nil, "encoding a spec-valid frame succeeds: an empty (non-nil) FOpts / FRMPayload list is no FOpts / FRMPayload")
	if errA == nil && errB == nil {
		verifAssert(verifBytesEq(a, b), "empty and nil lists encode to the same bytes")
	}
	_, errT := p.MarshalText()
	verifAssert(errT == nil, "text encoding of the same frame succeeds")
	verifReach("done")
}

// C04 / C10: decrypting a copy of an encrypted join-accept frame value leaves the original untouched.
func VerifC04_DecryptCopy(cf int) {
	ja := &JoinAcceptPayload{JoinNonce: JoinNonce(verifNondetU32("joinNonce") & 0xffffff), HomeNetID: NetID(verifNondet3("netID")), DevAddr: DevAddr(verifNondet4("devaddr")), RXDelay: verifNondetU8("rxdelay") & 15}
	if cf == 1 {
		ja.CFList = &CFList{CFListType: CFListChannel, Payload: &CFListChannelPayload{Channels: [5]uint32{(verifNondetU32("f0") & 0xffffff) * 100}}}
	}
	p := PHYPayload{MHDR: MHDR{MType: JoinAccept, Major: LoRaWANR1}, MACPayload: ja, MIC: MIC(verifNondet4("mic"))}
	key := AES128Key(verifNondetKey("key"))
	verifAssert(p.EncryptJoinAcceptPayload(key) == nil, "EncryptJoinAcceptPayload succeeds")
	ct, err := p.MarshalBinary()
	verifAssert(err == nil, "the encrypted frame encodes")
	snap := verifCopy(ct)
	cp := p // a struct copy, e.g. for logging the decrypted content
	verifAssert(cp.DecryptJoinAcceptPayload(key) == nil, "DecryptJoinAcceptPayload of the copy succeeds")
	again, err := p.MarshalBinary()
	verifAssert(err == nil, "the original still encodes")
	verifAssert(verifBytesEq(again, snap), "decrypting a copy of the frame value does not change the original's ciphertext")
	verifReach("done")
}

// C07: a registration (or a size-0 registration) in one direction leaves the other direction alone.
func VerifC07_ProprietaryOtherDirection(size, size2 int) {
	up := verifNondetBool("uplink")
	cid := verifNondetU8("cid")
	verifAssume(cid >= 128)
	verifAssert(RegisterProprietaryMACCommand(up, CID(cid), size) == nil, "proprietary: registration succeeds")
	verifAssert(RegisterProprietaryMACCommand(!up, CID(cid), size2) == nil, "proprietary: registration in the other direction succeeds")
	_, got, err := GetMACPayloadAndSize(up, CID(cid))
	verifAssert(err == nil && got == size, "proprietary: a registration in the other direction (any size, 0 included) does not change this direction's size")
	p := verifNondetBytes("payload", size)
	stream := append(append([]byte{cid}, p...), cid)
	stream = append(stream, p...)
	out, derr := decodeDataPayloadToMACCommands(up, []Payload{&DataPayload{Bytes: stream}})
	verifAssert(derr == nil, "proprietary: the stream decodes in the registered direction")
	verifAssert(len(out) == 2, "proprietary: framed with the size registered for this direction")
	verifReach("done")
}

// C07 / C10: encoding a proprietary command whose payload bytes are a sub-slice with spare capacity neither changes
// the caller's buffer nor the command; two encodings agree.
func VerifC07_ProprietaryEncodeSpare(n int) {
	cid := verifNondetU8("cid")
	verifAssume(cid >= 128)
	buf := verifNondetBytes("buf", n+4)
	orig := verifCopy(buf)
	cmd := MACCommand{CID: CID(cid), Payload: &ProprietaryMACCommandPayload{Bytes: buf[:n]}}
	a, err := cmd.MarshalBinary()
	verifAssert(err == nil, "proprietary: encodes")
	a = verifCopy(a)
	b, err := cmd.MarshalBinary()
	verifAssert(err == nil, "proprietary: encodes again")
	verifAssert(verifBytesEq(buf, orig), "proprietary: encoding does not write into or behind the caller's payload bytes")
	verifAssert(len(a) == n+1 && a[0] == cid && verifBytesEq(a[1:], orig[:n]), "proprietary: CID followed by the payload bytes")
	verifAssert(verifBytesEq(a, b), "proprietary: two encodings of the same command agree")
	// two commands on adjacent parts of one buffer
	c1 := &MACCommand{CID: CID(cid), Payload: &ProprietaryMACCommandPayload{Bytes: buf[0:2]}}
	c2 := &MACCommand{CID: CID(cid), Payload: &ProprietaryMACCommandPayload{Bytes: buf[2:4]}}
	h := FHDR{FOpts: []Payload{c1, c2}}
	hb, err := h.MarshalBinary()
	verifAssert(err == nil, "FHDR with two proprietary commands encodes")
	verifAssert(verifBytesEq(hb[7:], []byte{cid, orig[0], orig[1], cid, orig[2], orig[3]}), "each command carries its own payload bytes")
	verifAssert(verifBytesEq(buf, orig), "encoding the header does not write into the caller's buffer")
	verifReach("done")
}

// C09 / C10: decoding a frame and then decrypting it never writes to the buffer the frame was decoded from.
func VerifC09_DecodeThenDecrypt(L int) {
	data, orig := c09Input("data", L)
	mt := data[0] >> 5
	verifAssume(mt >= 2 && mt <= 5)
	verifAssume(data[5]&0x0f == 0) // no FOpts: the whole rest is FPort | FRMPayload (lengths 16, 32, .. are the point)
	verifAssume(data[8] != 0)      // application payload
	var p PHYPayload
	if p.UnmarshalBinary(data) != nil {
		verifReach("rejected")
		return
	}
	key := AES128Key(verifNondetKey("key"))
	p.DecryptFRMPayload(key)
	c09Unchanged(data, orig, "UnmarshalBinary + DecryptFRMPayload")
	p.EncryptFRMPayload(key)
	c09Unchanged(data, orig, "UnmarshalBinary + Decrypt + EncryptFRMPayload")
	verifReach("done")
}

// C05: corruption of the serialised frame. The receiver gets the sender's bytes with byte `pos` changed by an
// arbitrary non-zero mask (pos < 0: untouched). The specification's MIC is taken over the bytes AS RECEIVED
// (MHDR | MACPayload as on the wire); validation must succeed exactly when the carried MIC equals it.
func VerifC05_WireCorruption(ver, mt, nFOpts, fpMode, nFRM, pos int) {
	mtype := c03MType(mt)
	up := specIsUplink(mtype)
	d := newSpecData(mtype, nFOpts, fpMode, nFRM)
	k := c05DrawKeys()
	tx := d.phy()
	if up {
		verifAssert(tx.SetUplinkDataMIC(c02Version(ver), k.confFCnt, k.txDR, k.txCh, AES128Key(k.fNwkSInt), AES128Key(k.sNwkSInt)) == nil, "sender: SetUplinkDataMIC succeeds")
	} else {
		verifAssert(tx.SetDownlinkDataMIC(c02Version(ver), k.confFCnt, AES128Key(k.sNwkSInt)) == nil, "sender: SetDownlinkDataMIC succeeds")
	}
	wire, err := tx.MarshalBinary()
	verifAssert(err == nil, "sender: MarshalBinary succeeds")
	rxb := verifCopy(wire)
	if pos >= len(rxb) {
		verifReach("n/a")
		return
	}
	if pos >= 0 {
		m := verifNondetU8("corruption")
		verifAssume(m != 0)
		if pos == 0 {
			verifAssume(m&0xe0 == 0) // the message type stays a data frame of the same direction (other types: other decoders)
		}
		if pos == 5 {
			verifAssume(m&0x0f == 0) // FOptsLen unchanged (a changed length re-frames the payload: covered by C08 + C02)
		}
		rxb[pos] ^= m
	}
	var rx PHYPayload
	if rx.UnmarshalBinary(verifCopy(rxb)) != nil {
		verifReach("rejected-by-decoder")
		return
	}
	rmp, ok := rx.MACPayload.(*MACPayload)
	verifAssert(ok, "receiver: data frame")
	// the receiver's counter: upper bits as the sender's, lower bits from the wire
	rfcnt := d.fcnt&0xffff0000 | uint32(rxb[6]) | uint32(rxb[7])<<8
	rmp.FHDR.FCnt = rfcnt
	var valid bool
	if up {
		valid, err = rx.ValidateUplinkDataMIC(c02Version(ver), k.confFCnt, k.txDR, k.txCh, AES128Key(k.fNwkSInt), AES128Key(k.sNwkSInt))
	} else {
		valid, err = rx.ValidateDownlinkDataMIC(c02Version(ver), k.confFCnt, AES128Key(k.sNwkSInt))
	}
	verifAssert(err == nil, "receiver: MIC validation runs")
	// specification MIC over the received bytes
	n := len(rxb)
	msg := rxb[:n-4]
	addr := DevAddr{rxb[4], rxb[3], rxb[2], rxb[1]}
	ack := rxb[5]&0x20 != 0
	var want [4]byte
	if up {
		cmacF := specCMAC4(k.fNwkSInt, specBBlock(0, 0, 0, 0, addr, rfcnt, len(msg)), msg)
		if ver == 0 {
			copy(want[:], cmacF[0:4])
		} else {
			conf := verifIteU16(ack, uint16(k.confFCnt), 0)
			cmacS := specCMAC4(k.sNwkSInt, specBBlock(conf, k.txDR, k.txCh, 0, addr, rfcnt, len(msg)), msg)
			want = [4]byte{cmacS[0], cmacS[1], cmacF[0], cmacF[1]}
		}
	} else {
		conf := uint16(0)
		if ver != 0 {
			conf = verifIteU16(ack, uint16(k.confFCnt), 0)
		}
		c := specCMAC4(k.sNwkSInt, specBBlock(conf, 0, 0, 1, addr, rfcnt, len(msg)), msg)
		copy(want[:], c[0:4])
	}
	carried := [4]byte{rxb[n-4], rxb[n-3], rxb[n-2], rxb[n-1]}
	verifAssertKnown("C05-mhdr-rfu-bits-not-authenticated", pos == 0, valid == (carried == want), "receiver: validation succeeds exactly when the MIC carried by the received bytes is the specification's MIC over the received bytes")
	verifReach("done")
}

// C03: a frame value without FPort but with FRMPayload bytes (the encoder refuses it) is either transformed or
// refused by PHYPayload.EncryptFRMPayload - never "success" with the bytes left in clear.
func VerifC03_PHYFRMNoPort(mt, n int) {
	mtype := c03MType(mt)
	addr := DevAddr(verifNondet4("devaddr"))
	fcnt := verifNondetU32("fcnt")
	frm := verifNondetBytes("frm", n)
	key := verifNondetKey("key")
	p := PHYPayload{MHDR: MHDR{MType: mtype, Major: LoRaWANR1}, MACPayload: &MACPayload{FHDR: FHDR{DevAddr: addr, FCnt: fcnt}, FRMPayload: []Payload{&DataPayload{Bytes: verifCopy(frm)}}}}
	err := p.EncryptFRMPayload(AES128Key(key))
	if err != nil {
		verifReach("refused")
		return
	}
	mp := p.MACPayload.(*MACPayload)
	want := specFRMCrypt(key, specIsUplink(mtype), addr, fcnt, frm)
	verifAssert(len(mp.FRMPayload) == 1, "PHYPayload.EncryptFRMPayload: one payload stored")
	dp, ok := mp.FRMPayload[0].(*DataPayload)
	verifAssert(ok, "PHYPayload.EncryptFRMPayload: stored as DataPayload")
	verifAssert(verifBytesEq(dp.Bytes, want), "PHYPayload.EncryptFRMPayload: success means the stored bytes are the spec ciphertext (never the plaintext)")
	verifReach("done")
}
