package lorawan

import "time"

// C07: MAC-command encoding is lossless-or-error; command streams are self-delimiting.

// RoundTrip over the whole Go domain of every field (out-of-range values included).
func VerifC07_RoundTrip(idx int) {
	s := &macSpecs[idx]
	if s.name == "DeviceTimeAns" {
		c07DeviceTime(s)
		return
	}
	vals := s.draw(true)
	p := mkPayload(s, vals)
	b, err := p.MarshalBinary()
	verifAssert(verifImplies(s.inRange(vals), err == nil), s.name+": every value within the spec field ranges is accepted")
	if err != nil {
		verifReach("rejected")
		return
	}
	verifAssert(len(b) == s.size, s.name+": encoded length == registered/spec size")
	q, size, err := GetMACPayloadAndSize(s.uplink, s.cid)
	verifAssert(err == nil, s.name+": registered")
	verifAssert(size == len(b), s.name+": registered size == encoded length")
	err = q.UnmarshalBinary(verifCopy(b))
	verifAssert(err == nil, s.name+": own encoding decodes")
	got, ok := rdPayload(s, q)
	verifAssert(ok, s.name+": decodes into the same payload type")
	for i, f := range s.fields {
		label := s.name + "." + f.name + ": accepted value decodes back unchanged (lossless or error)"
		region := false
		id := ""
		switch {
		case s.name == "NewChannelReq" && f.name == "Freq":
			id = "C07-newchannelreq-24ghz-200hz"
			region = verifAnd(vals[i] >= 2400000000, vals[i]%200 != 0)
		case s.name == "TXParamSetupReq" && f.kind == mfU && f.gobits == 64:
			id = "C07-txparamsetup-dwelltime-range"
			region = vals[i] > 1
		}
		if id != "" {
			verifAssertKnown(id, region, got[i] == vals[i], label)
		} else {
			verifAssert(got[i] == vals[i], label)
		}
	}
	verifReach("accepted")
}

// DeviceTimeAns. Part A (any int64 duration): accepted exactly when 0 <= d < 2^32 s (out-of-range is
// reported, never wrapped). Part B (d = sec*1e9 + rem, sec < 2^32, rem < 1e9, i.e. every in-range d by
// Euclidean division): accepted and decodes back to within 1/256 s.
func c07DeviceTime(s *mSpec) {
	d := verifNondetI64("timeSinceGPSEpoch")
	p := &DeviceTimeAnsPayload{TimeSinceGPSEpoch: time.Duration(d)}
	_, err := p.MarshalBinary()
	inRange := verifAnd(d >= 0, d < (1<<32)*1000000000)
	verifAssert((err == nil) == inRange, "DeviceTimeAns: a duration is accepted exactly when it fits the 32-bit seconds field (0 .. 2^32 s)")

	sec := verifNondetU32("seconds")
	rem := verifNondetU32("nanoseconds") % 1000000000
	base := int64(sec) * 1000000000
	d2 := base + int64(rem)
	p2 := &DeviceTimeAnsPayload{TimeSinceGPSEpoch: time.Duration(d2)}
	b, err := p2.MarshalBinary()
	verifAssert(err == nil, "DeviceTimeAns: every duration of 0 .. 2^32 s is accepted")
	verifAssert(len(b) == 5, "DeviceTimeAns: encoded length == 5")
	var q DeviceTimeAnsPayload
	err = q.UnmarshalBinary(verifCopy(b))
	verifAssert(err == nil, "DeviceTimeAns: own encoding decodes")
	// compare the sub-second parts (the whole seconds are the common term base)
	backNs := int64(q.TimeSinceGPSEpoch) - base
	verifAssert(backNs >= 0, "DeviceTimeAns: decoded whole seconds equal the encoded ones")
	verifAssert(backNs <= int64(rem), "DeviceTimeAns: decoded duration is not later than the encoded one")
	verifAssert(int64(rem)-backNs < 3906250, "DeviceTimeAns: decoded duration is within 1/256 s of the encoded one")
	verifReach("accepted")
}

func c07SpecOf(p MACCommandPayload, uplink bool) (*mSpec, []uint64) {
	for i := range macSpecs {
		s := &macSpecs[i]
		if s.uplink != uplink {
			continue
		}
		if v, ok := rdPayload(s, p); ok {
			return s, v
		}
	}
	return nil, nil
}

// Stream: an arbitrary byte string of length L decoded as a MAC-command stream of one direction.
// The decoded sequence must be exactly the spec framing of those bytes (1 + table size per command).
func VerifC07_Stream(up, L int) {
	uplink := up != 0
	data := verifNondetBytes("stream", L)
	out, err := decodeDataPayloadToMACCommands(uplink, []Payload{&DataPayload{Bytes: verifCopy(data)}})
	if err != nil {
		// only a truncated last command may be refused
		verifReach("rejected")
		return
	}
	pos := 0
	for _, pl := range out {
		mc, ok := pl.(*MACCommand)
		verifAssert(ok, "stream: every decoded element is a MACCommand")
		verifAssert(pos < L, "stream: every command consumes at least its CID byte")
		verifAssert(byte(mc.CID) == data[pos], "stream: command CID == byte at the framing position")
		if mc.Payload == nil {
			for i := range macSpecs {
				s := &macSpecs[i]
				if s.uplink == uplink {
					verifAssert(data[pos] != byte(s.cid), "stream: a CID that carries a payload in this direction is decoded with its payload")
				}
			}
			pos++
			continue
		}
		s, vals := c07SpecOf(mc.Payload, uplink)
		verifAssert(s != nil, "stream: payload type belongs to this direction")
		verifAssert(data[pos] == byte(s.cid), "stream: payload type matches the CID for this direction")
		verifAssert(pos+1+s.size <= L, "stream: payload lies inside the stream")
		want := s.unpack(leInt(data[pos+1 : pos+1+s.size]))
		for i := range s.fields {
			if s.name == "DeviceTimeAns" {
				if i == 0 {
					verifAssert(vals[0] == uint64(specDeviceTime(want[0], want[1])), "stream: DeviceTimeAns value")
				}
				continue
			}
			if s.fields[i].kind == mfU4or255 {
				continue
			}
			verifAssert(vals[i] == want[i], "stream: field value == spec decoding of the framed bytes")
		}
		pos += 1 + s.size
	}
	verifAssert(pos == L, "stream: the commands cover the byte string exactly")
	verifReach("accepted")
}

// Seq: k typed commands (spec-table indices, -1 = none) encoded, concatenated and decoded again.
func VerifC07_Seq(up, i1, i2, i3 int) {
	uplink := up != 0
	idx := []int{i1, i2, i3}
	var specs []*mSpec
	var vals [][]uint64
	var stream []byte
	for _, i := range idx {
		if i < 0 {
			continue
		}
		s := &macSpecs[i]
		v := s.draw(false)
		mc := MACCommand{CID: s.cid, Payload: mkPayload(s, v)}
		b, err := mc.MarshalBinary()
		verifAssert(err == nil, "seq: in-range command encodes")
		specs = append(specs, s)
		vals = append(vals, v)
		stream = append(stream, b...)
	}
	out, err := decodeDataPayloadToMACCommands(uplink, []Payload{&DataPayload{Bytes: stream}})
	verifAssert(err == nil, "seq: concatenated commands decode")
	verifAssert(len(out) == len(specs), "seq: decodes into the same number of commands")
	for k, pl := range out {
		mc, ok := pl.(*MACCommand)
		verifAssert(ok, "seq: element is a MACCommand")
		verifAssert(mc.CID == specs[k].cid, "seq: CID k equal")
		got, ok := rdPayload(specs[k], mc.Payload)
		verifAssert(ok, "seq: payload k has the encoded type")
		for i := range got {
			if specs[k].name == "DeviceTimeAns" {
				if i == 0 {
					verifAssert(got[0] == uint64(specDeviceTime(vals[k][0], vals[k][1])), "seq: DeviceTimeAns value equal")
				}
				continue
			}
			verifAssert(got[i] == vals[k][i], "seq: field value k.i equal")
		}
	}
	verifReach("done")
}

// Proprietary registration with arbitrary arguments, then a stream starting with that CID.
func VerifC07_Proprietary(L int) {
	up := verifNondetBool("uplink")
	cid := verifNondetU8("cid")
	size := verifNondetInt("size")
	err := RegisterProprietaryMACCommand(up, CID(cid), size)
	if cid < 128 {
		verifAssert(err != nil, "proprietary: CIDs below 0x80 are refused")
		verifReach("refused-cid")
		return
	}
	if err != nil {
		verifAssert(size < 0, "proprietary: only an impossible size is refused")
		verifReach("refused-size")
		return
	}
	verifAssert(size >= 0, "proprietary: a negative payload size is refused")
	data := verifNondetBytes("stream", L)
	verifAssume(data[0] == cid)
	dir := verifNondetBool("decodeDir")
	out, derr := decodeDataPayloadToMACCommands(dir, []Payload{&DataPayload{Bytes: verifCopy(data)}})
	if dir == up && size > 0 {
		if size > L-1 {
			verifAssert(derr != nil, "proprietary: truncated payload is refused")
			verifReach("truncated")
			return
		}
		if size == L-1 {
			verifAssert(derr == nil, "proprietary: a stream holding exactly the framed command decodes")
		}
		if derr != nil {
			// a later command of the stream may be truncated
			verifReach("later-command-refused")
			return
		}
		verifAssert(len(out) >= 1, "proprietary: at least one command")
		mc, ok := out[0].(*MACCommand)
		verifAssert(ok, "proprietary: element is a MACCommand")
		verifAssert(byte(mc.CID) == cid, "proprietary: CID equal")
		pp, ok := mc.Payload.(*ProprietaryMACCommandPayload)
		verifAssert(ok, "proprietary: payload type")
		verifAssert(verifBytesEq(pp.Bytes, data[1:1+size]), "proprietary: framed with the registered size")
		verifReach("framed")
		return
	}
	// other direction (or size 0): the CID has no registered payload there
	if derr == nil {
		mc, ok := out[0].(*MACCommand)
		verifAssert(ok, "proprietary: element is a MACCommand")
		verifAssert(mc.Payload == nil, "proprietary: registration does not affect the other direction")
	}
	verifReach("other-direction")
}

// Two occurrences of the same proprietary CID in one stream keep their own payload bytes.
func VerifC07_ProprietaryTwice(size int) {
	up := verifNondetBool("uplink")
	cid := verifNondetU8("cid")
	verifAssume(cid >= 128)
	verifAssert(RegisterProprietaryMACCommand(up, CID(cid), size) == nil, "proprietary: registration succeeds")
	p1 := verifNondetBytes("first", size)
	p2 := verifNondetBytes("second", size)
	stream := append(append(append([]byte{cid}, p1...), cid), p2...)
	out, err := decodeDataPayloadToMACCommands(up, []Payload{&DataPayload{Bytes: stream}})
	verifAssert(err == nil, "proprietary: stream of two framed commands decodes")
	verifAssert(len(out) == 2, "proprietary: two commands")
	for k, want := range [][]byte{p1, p2} {
		mc, ok := out[k].(*MACCommand)
		verifAssert(ok, "proprietary: element is a MACCommand")
		pp, ok := mc.Payload.(*ProprietaryMACCommandPayload)
		verifAssert(ok, "proprietary: payload type")
		verifAssert(verifBytesEq(pp.Bytes, want), "proprietary: every occurrence of the command keeps its own payload bytes")
	}
	verifNoGlobalWritesExcept("lorawan.macPayloadRegistry") // C10: no hidden package-level state is written
	verifReach("done")
}

// History: a stream is decoded, then a proprietary CID is registered, then re-registered with another size; every
// decode uses the size registered at that moment (no stale derived table).
func VerifC07_ProprietaryHistory(size, size2 int) {
	up := verifNondetBool("uplink")
	cid := verifNondetU8("cid")
	verifAssume(cid >= 128)
	// before any registration: a stream holding the CID that will be registered and a standard command, in the
	// direction that will be registered (an implementation that memoises sizes has now seen both)
	_, _ = decodeDataPayloadToMACCommands(up, []Payload{&DataPayload{Bytes: []byte{cid, byte(DevStatusReq)}}})
	for round, sz := range []int{size, size2} {
		verifAssert(RegisterProprietaryMACCommand(up, CID(cid), sz) == nil, "proprietary: registration succeeds")
		_ = round
		p := verifNondetBytes("payload", sz)
		stream := append(append([]byte{cid}, p...), byte(DevStatusReq))
		out, err := decodeDataPayloadToMACCommands(up, []Payload{&DataPayload{Bytes: stream}})
		if up {
			// DevStatusReq is a downlink CID; in an uplink stream 0x06 is DevStatusAns (2 bytes): truncated
			verifAssert(err != nil || len(out) >= 1, "proprietary: decode result is well formed")
			if err != nil {
				continue
			}
		}
		verifAssert(err == nil, "proprietary: a registration made after earlier decodes is honoured")
		verifAssert(len(out) == 2, "proprietary: framed by the size registered at the time of the decode")
		mc, ok := out[0].(*MACCommand)
		verifAssert(ok, "proprietary: element is a MACCommand")
		if sz > 0 {
			pp, ok := mc.Payload.(*ProprietaryMACCommandPayload)
			verifAssert(ok, "proprietary: payload type")
			verifAssert(verifBytesEq(pp.Bytes, p), "proprietary: payload bytes of the size registered at the time of the decode")
		}
	}
	verifReach("done")
}
