package lorawan

// C02: data-frame MIC equals the specification value; set / validate agree.

func c02Version(ver int) MACVersion {
	if ver == 0 {
		return LoRaWAN1_0
	}
	return LoRaWAN1_1
}

func VerifC02_Uplink(ver, nFOpts, fpMode, nFRM int) {
	conf := verifNondetBool("confirmed")
	mt := MType(verifIteU8(conf, uint8(ConfirmedDataUp), uint8(UnconfirmedDataUp)))
	d := newSpecData(mt, nFOpts, fpMode, nFRM)
	fKey := verifNondetKey("fNwkSIntKey")
	sKey := verifNondetKey("sNwkSIntKey")
	confFCnt := verifNondetU32("confFCnt")
	txDR := verifNondetU8("txDR")
	txCh := verifNondetU8("txCh")
	want, cmacF := specUplinkMIC(ver != 0, confFCnt, txDR, txCh, fKey, sKey, d)

	p := d.phy()
	err := p.SetUplinkDataMIC(c02Version(ver), confFCnt, txDR, txCh, AES128Key(fKey), AES128Key(sKey))
	verifAssert(err == nil, "SetUplinkDataMIC: no error")
	verifAssert(p.MIC == MIC(want), "SetUplinkDataMIC: MIC == spec AES-CMAC value")

	carried := specCarriedMIC(want)
	p.MIC = MIC(carried)
	ok, err := p.ValidateUplinkDataMIC(c02Version(ver), confFCnt, txDR, txCh, AES128Key(fKey), AES128Key(sKey))
	verifAssert(err == nil, "ValidateUplinkDataMIC: no error")
	verifAssert(ok == (carried == want), "ValidateUplinkDataMIC: true exactly when the frame carries the spec MIC")

	okF, err := p.ValidateUplinkDataMICF(AES128Key(fKey))
	verifAssert(err == nil, "ValidateUplinkDataMICF: no error")
	verifAssert(okF == verifAnd(carried[2] == cmacF[0], carried[3] == cmacF[1]), "ValidateUplinkDataMICF: compares the cmacF half only")
	verifReach("done")
}

func VerifC02_Downlink(ver, nFOpts, fpMode, nFRM int) {
	conf := verifNondetBool("confirmed")
	mt := MType(verifIteU8(conf, uint8(ConfirmedDataDown), uint8(UnconfirmedDataDown)))
	d := newSpecData(mt, nFOpts, fpMode, nFRM)
	key := verifNondetKey("sNwkSIntKey")
	confFCnt := verifNondetU32("confFCnt")
	want := specDownlinkMIC(ver != 0, confFCnt, key, d)

	p := d.phy()
	err := p.SetDownlinkDataMIC(c02Version(ver), confFCnt, AES128Key(key))
	verifAssert(err == nil, "SetDownlinkDataMIC: no error")
	verifAssert(p.MIC == MIC(want), "SetDownlinkDataMIC: MIC == spec AES-CMAC value")

	carried := specCarriedMIC(want)
	p.MIC = MIC(carried)
	ok, err := p.ValidateDownlinkDataMIC(c02Version(ver), confFCnt, AES128Key(key))
	verifAssert(err == nil, "ValidateDownlinkDataMIC: no error")
	verifAssert(ok == (carried == want), "ValidateDownlinkDataMIC: true exactly when the frame carries the spec MIC")
	verifReach("done")
}
