package lorawan

// C05: end-to-end secure frame exchange recovers the content and rejects tampering.

// c05Cmds draws the typed MAC commands with in-range symbolic field values.
func c05Cmds(idx []int) ([]*mSpec, [][]uint64, []Payload) {
	var specs []*mSpec
	var vals [][]uint64
	var pls []Payload
	for _, i := range idx {
		if i < 0 {
			continue
		}
		s := &macSpecs[i]
		v := s.draw(false)
		specs = append(specs, s)
		vals = append(vals, v)
		pls = append(pls, &MACCommand{CID: s.cid, Payload: mkPayload(s, v)})
	}
	return specs, vals, pls
}

func c05CheckCmds(pls []Payload, specs []*mSpec, vals [][]uint64, where string) {
	verifAssert(len(pls) == len(specs), where+": same number of MAC commands recovered")
	for k, pl := range pls {
		if k >= len(specs) {
			break
		}
		mc, ok := pl.(*MACCommand)
		verifAssert(ok, where+": recovered element is a MACCommand")
		verifAssert(mc.CID == specs[k].cid, where+": recovered CID equal")
		got, ok := rdPayload(specs[k], mc.Payload)
		verifAssert(ok, where+": recovered payload type equal")
		for i := range got {
			if specs[k].name == "DeviceTimeAns" {
				if i == 0 {
					verifAssert(got[0] == uint64(specDeviceTime(vals[k][0], vals[k][1])), where+": recovered DeviceTimeAns value equal")
				}
				continue
			}
			verifAssert(got[i] == vals[k][i], where+": recovered field value equal")
		}
	}
}

type c05Keys struct {
	fNwkSInt, sNwkSInt, nwkSEnc, appS [16]byte
	confFCnt                           uint32
	txDR, txCh                         uint8
}

func c05DrawKeys() c05Keys {
	return c05Keys{fNwkSInt: verifNondetKey("fNwkSIntKey"), sNwkSInt: verifNondetKey("sNwkSIntKey"), nwkSEnc: verifNondetKey("nwkSEncKey"), appS: verifNondetKey("appSKey"),
		confFCnt: verifNondetU32("confFCnt"), txDR: verifNondetU8("txDR"), txCh: verifNondetU8("txCh")}
}

// where: 0 = MAC commands c1,c2 in FOpts + nFRM application bytes on a port > 0 (no FPort when nFRM == 0)
//        1 = MAC commands c1,c2 as FRMPayload on port 0 (no FOpts)
func VerifC05_E2E(ver, mt, c1, c2, where, nFRM int) {
	mtype := c03MType(mt)
	up := specIsUplink(mtype)
	k := c05DrawKeys()
	specs, vals, cmds := c05Cmds([]int{c1, c2})
	addr := DevAddr(verifNondet4("devaddr"))
	fcnt := verifNondetU32("fcnt")
	app := verifNondetBytes("app", nFRM)
	port := verifNondetU8("fport")
	verifAssume(port > 0)

	// ---- sender ----
	mp := &MACPayload{}
	mp.FHDR.DevAddr = addr
	mp.FHDR.FCnt = fcnt
	mp.FHDR.FCtrl.ADR = verifNondetBool("adr")
	mp.FHDR.FCtrl.ACK = verifNondetBool("ack")
	if where == 2 { // MAC commands in FOpts, FPort > 0 present, no FRMPayload bytes
		where, nFRM = 0, 0
		mp.FHDR.FOpts = cmds
		p := port
		mp.FPort = &p
	} else if where == 0 {
		mp.FHDR.FOpts = cmds
		if nFRM > 0 {
			p := port
			mp.FPort = &p
			mp.FRMPayload = []Payload{&DataPayload{Bytes: verifCopy(app)}}
		}
	} else {
		p := uint8(0)
		mp.FPort = &p
		mp.FRMPayload = cmds
	}
	tx := &PHYPayload{MHDR: MHDR{MType: mtype, Major: LoRaWANR1}, MACPayload: mp}
	frmKey := k.appS
	if where == 1 {
		frmKey = k.nwkSEnc
	}
	verifAssert(tx.EncryptFRMPayload(AES128Key(frmKey)) == nil, "sender: EncryptFRMPayload succeeds")
	if ver == 1 {
		verifAssert(tx.EncryptFOpts(AES128Key(k.nwkSEnc)) == nil, "sender: EncryptFOpts succeeds")
	}
	if up {
		verifAssert(tx.SetUplinkDataMIC(c02Version(ver), k.confFCnt, k.txDR, k.txCh, AES128Key(k.fNwkSInt), AES128Key(k.sNwkSInt)) == nil, "sender: SetUplinkDataMIC succeeds")
	} else {
		verifAssert(tx.SetDownlinkDataMIC(c02Version(ver), k.confFCnt, AES128Key(k.sNwkSInt)) == nil, "sender: SetDownlinkDataMIC succeeds")
	}
	wire, err := tx.MarshalBinary()
	verifAssert(err == nil, "sender: MarshalBinary succeeds")

	// ---- receiver (same keys and counters) ----
	var rx PHYPayload
	verifAssert(rx.UnmarshalBinary(verifCopy(wire)) == nil, "receiver: UnmarshalBinary succeeds")
	rmp, ok := rx.MACPayload.(*MACPayload)
	verifAssert(ok, "receiver: data frame")
	verifAssert(rmp.FHDR.FCnt == fcnt&0xffff, "receiver: 16 bits of FCnt on the wire")
	rmp.FHDR.FCnt = fcnt // the receiver restores the upper 16 bits it tracks
	var valid bool
	if up {
		valid, err = rx.ValidateUplinkDataMIC(c02Version(ver), k.confFCnt, k.txDR, k.txCh, AES128Key(k.fNwkSInt), AES128Key(k.sNwkSInt))
	} else {
		valid, err = rx.ValidateDownlinkDataMIC(c02Version(ver), k.confFCnt, AES128Key(k.sNwkSInt))
	}
	verifAssert(err == nil, "receiver: MIC validation runs")
	verifAssert(valid, "receiver: the MIC of an untampered frame validates")
	if where == 0 && len(cmds) > 0 {
		if ver == 1 {
			verifAssert(rx.DecryptFOpts(AES128Key(k.nwkSEnc)) == nil, "receiver: DecryptFOpts succeeds")
		} else {
			verifAssert(rx.DecodeFOptsToMACCommands() == nil, "receiver: DecodeFOptsToMACCommands succeeds")
		}
		c05CheckCmds(rmp.FHDR.FOpts, specs, vals, "FOpts")
	}
	verifAssert(rx.DecryptFRMPayload(AES128Key(frmKey)) == nil, "receiver: DecryptFRMPayload succeeds")
	if where == 1 {
		if len(cmds) > 0 {
			c05CheckCmds(rmp.FRMPayload, specs, vals, "FRMPayload")
		}
	} else if nFRM > 0 {
		verifAssert(rmp.FPort != nil, "receiver: FPort present")
		verifAssert(*rmp.FPort == port, "receiver: FPort equal")
		b, ok := c01Bytes(rmp.FRMPayload)
		verifAssert(ok, "receiver: FRMPayload is a byte payload")
		verifAssert(verifBytesEq(b, app), "receiver: application payload recovered")
	}
	verifNoGlobalWritesExcept("") // C10: no hidden package-level state is written
	verifReach("done")
}

// Tamper: the receiver's key / counter (upper 16 bits included) / 1.1 MIC parameters are independent symbols.
// Validation must return true exactly when the specification MIC for the receiver's view equals the carried one.
func VerifC05_Tamper(ver, mt, nFOpts, fpMode, nFRM int) {
	mtype := c03MType(mt)
	up := specIsUplink(mtype)
	d := newSpecData(mtype, nFOpts, fpMode, nFRM)
	k := c05DrawKeys()
	tx := d.phy()
	if up {
		verifAssert(tx.SetUplinkDataMIC(c02Version(ver), k.confFCnt, k.txDR, k.txCh, AES128Key(k.fNwkSInt), AES128Key(k.sNwkSInt)) == nil, "sender: SetUplinkDataMIC succeeds")
	} else {
		verifAssert(tx.SetDownlinkDataMIC(c02Version(ver), k.confFCnt, AES128Key(k.sNwkSInt)) == nil, "sender: SetDownlinkDataMIC succeeds")
	}
	wire, err := tx.MarshalBinary()
	verifAssert(err == nil, "sender: MarshalBinary succeeds")
	carried := tx.MIC

	var rx PHYPayload
	verifAssert(rx.UnmarshalBinary(verifCopy(wire)) == nil, "receiver: UnmarshalBinary succeeds")
	rmp := rx.MACPayload.(*MACPayload)
	// receiver's view: its own counter estimate (same low 16 bits as on the wire, any upper bits), keys and parameters
	hi := verifNondetU16("receiverFCntHigh")
	rfcnt := uint32(hi)<<16 | d.fcnt&0xffff
	rmp.FHDR.FCnt = rfcnt
	k2 := c05DrawKeys()
	d2 := *d
	d2.fcnt = rfcnt
	var valid bool
	var want [4]byte
	if up {
		valid, err = rx.ValidateUplinkDataMIC(c02Version(ver), k2.confFCnt, k2.txDR, k2.txCh, AES128Key(k2.fNwkSInt), AES128Key(k2.sNwkSInt))
		want, _ = specUplinkMIC(ver != 0, k2.confFCnt, k2.txDR, k2.txCh, k2.fNwkSInt, k2.sNwkSInt, &d2)
	} else {
		valid, err = rx.ValidateDownlinkDataMIC(c02Version(ver), k2.confFCnt, AES128Key(k2.sNwkSInt))
		want = specDownlinkMIC(ver != 0, k2.confFCnt, k2.sNwkSInt, &d2)
	}
	verifAssert(err == nil, "receiver: MIC validation runs")
	verifAssert(valid == (carried == MIC(want)), "receiver: validation succeeds exactly when the specification MIC for the receiver's keys, counter (32 bit) and parameters equals the carried MIC")
	verifReach("done")
}
