package lorawan

// C10: isolation - no aliasing of caller buffers, no hidden state, lock discipline.

// A decoded frame does not change when the caller later overwrites the buffer it was decoded from.
func VerifC10_AliasDecode(L int) {
	data := verifNondetBytes("data", L)
	var p PHYPayload
	if err := p.UnmarshalBinary(data); err != nil {
		verifReach("rejected")
		return
	}
	out1, err := p.MarshalBinary()
	if err != nil {
		verifReach("not-encodable")
		return
	}
	snap := verifCopy(out1)
	verifHavoc(data) // the caller reuses its receive buffer
	out2, err := p.MarshalBinary()
	verifAssert(err == nil, "the decoded frame still encodes after the input buffer was overwritten")
	verifAssert(verifBytesEq(out2, snap), "a decoded frame does not change when the buffer it was decoded from is overwritten")
	verifReach("accepted")
}

// Encoded output does not alias the frame: overwriting it leaves the frame unchanged.
func VerifC10_AliasEncode(mt, nFOpts, fpMode, nFRM int) {
	d := newSpecData(c03MType(mt), nFOpts, fpMode, nFRM)
	p := d.phy()
	out1, err := p.MarshalBinary()
	verifAssert(err == nil, "encodes")
	snap := verifCopy(out1)
	verifHavoc(out1)
	out2, err := p.MarshalBinary()
	verifAssert(err == nil, "encodes again")
	verifAssert(verifBytesEq(out2, snap), "overwriting encoded output does not change the frame")
	verifReach("done")
}

// MAC-command decoders: proprietary payload bytes and FOpts / FRMPayload decoded to commands do not alias the input.
func VerifC10_AliasMAC(L int) {
	data := verifNondetBytes("data", L)
	verifAssume(data[0] >= 0x80)
	size := L - 1
	up := verifNondetBool("uplink")
	if size > 0 {
		verifAssert(RegisterProprietaryMACCommand(up, CID(data[0]), size) == nil, "registration succeeds")
	}
	pls, err := decodeDataPayloadToMACCommands(up, []Payload{&DataPayload{Bytes: data}})
	verifAssert(err == nil, "stream decodes")
	verifAssert(len(pls) == 1, "one command")
	mc := pls[0].(*MACCommand)
	b1, err := mc.MarshalBinary()
	verifAssert(err == nil, "command encodes")
	snap := verifCopy(b1)
	verifHavoc(data)
	b2, err := mc.MarshalBinary()
	verifAssert(err == nil, "command encodes again")
	verifAssert(verifBytesEq(b2, snap), "a decoded proprietary MAC command does not change when the input buffer is overwritten")
	verifReach("done")
}

// The exported encryption functions never modify memory outside the slice they were given.
func VerifC10_GuardFRM(n, spare int) {
	buf := verifNondetBytes("buf", n+spare)
	orig := verifCopy(buf)
	key := AES128Key(verifNondetKey("key"))
	addr := DevAddr(verifNondet4("devaddr"))
	fcnt := verifNondetU32("fcnt")
	up := verifNondetBool("uplink")
	_, err := EncryptFRMPayload(key, up, addr, fcnt, buf[:n]) // a sub-slice with spare capacity
	verifAssert(err == nil, "EncryptFRMPayload succeeds")
	verifAssert(verifBytesEq(buf[n:], orig[n:]), "EncryptFRMPayload does not modify memory beyond the slice it was given")
	verifReach("done")
}

func VerifC10_GuardFOpts(n, spare int) {
	buf := verifNondetBytes("buf", n+spare)
	orig := verifCopy(buf)
	key := AES128Key(verifNondetKey("key"))
	addr := DevAddr(verifNondet4("devaddr"))
	fcnt := verifNondetU32("fcnt")
	up := verifNondetBool("uplink")
	a := verifNondetBool("aFCntDown")
	_, err := EncryptFOpts(key, a, up, addr, fcnt, buf[:n])
	verifAssert(err == nil, "EncryptFOpts succeeds")
	verifAssert(verifBytesEq(buf[n:], orig[n:]), "EncryptFOpts does not modify memory beyond the slice it was given")
	verifReach("done")
}

// Validate* / Marshal* never modify the frame they only inspect.
func VerifC10_ReadOnly(mt, nFOpts, fpMode, nFRM int) {
	mtype := c03MType(mt)
	d := newSpecData(mtype, nFOpts, fpMode, nFRM)
	p := d.phy()
	p.MIC = MIC(verifNondet4("mic"))
	before, err := p.MarshalBinary()
	verifAssert(err == nil, "encodes")
	snap := verifCopy(before)
	k := c05DrawKeys()
	ver := c02Version(int(verifNondetU8("version") & 1))
	if specIsUplink(mtype) {
		p.ValidateUplinkDataMIC(ver, k.confFCnt, k.txDR, k.txCh, AES128Key(k.fNwkSInt), AES128Key(k.sNwkSInt))
		p.ValidateUplinkDataMICF(AES128Key(k.fNwkSInt))
	} else {
		p.ValidateDownlinkDataMIC(ver, k.confFCnt, AES128Key(k.sNwkSInt))
	}
	p.MarshalText()
	mp := p.MACPayload.(*MACPayload)
	verifAssert(mp.FHDR.FCnt == d.fcnt, "validation does not change FCnt")
	verifAssert(mp.FHDR.FCtrl.fOptsLen == 0, "validation does not leave a computed FOptsLen behind in the inspected frame")
	after, err := p.MarshalBinary()
	verifAssert(err == nil, "encodes after validation")
	verifAssert(verifBytesEq(after, snap), "Validate*/Marshal* leave the frame unchanged")
	verifReach("done")
}

// Decoding into a value that was used before gives the same result as decoding into a fresh one.
func VerifC10_ReuseMAC(idx int) {
	s := &macSpecs[idx]
	b1 := verifNondetBytes("first", s.size)
	b2 := verifNondetBytes("second", s.size)
	fresh, _, err := GetMACPayloadAndSize(s.uplink, s.cid)
	verifAssert(err == nil, "registered")
	used, _, _ := GetMACPayloadAndSize(s.uplink, s.cid)
	verifAssert(used.UnmarshalBinary(verifCopy(b1)) == nil, "first decode")
	verifAssert(used.UnmarshalBinary(verifCopy(b2)) == nil, "second decode into the used value")
	verifAssert(fresh.UnmarshalBinary(verifCopy(b2)) == nil, "decode into a fresh value")
	vu, _ := rdPayload(s, used)
	vf, _ := rdPayload(s, fresh)
	for i, f := range s.fields {
		verifAssertKnown("C10-reuse-"+s.name, false, vu[i] == vf[i], s.name+"."+f.name+": decoding into a used value == decoding into a fresh value")
	}
	verifReach("done")
}

func VerifC10_ReuseFrame(L int) {
	b1 := verifNondetBytes("first", L)
	b2 := verifNondetBytes("second", L)
	var used, fresh PHYPayload
	if used.UnmarshalBinary(verifCopy(b1)) != nil {
		verifReach("first-rejected")
		return
	}
	e1 := used.UnmarshalBinary(verifCopy(b2))
	e2 := fresh.UnmarshalBinary(verifCopy(b2))
	verifAssert((e1 == nil) == (e2 == nil), "a used frame value accepts exactly what a fresh one accepts")
	if e1 != nil || e2 != nil {
		verifReach("second-rejected")
		return
	}
	o1, err1 := used.MarshalBinary()
	o2, err2 := fresh.MarshalBinary()
	verifAssert((err1 == nil) == (err2 == nil), "both encode or both fail")
	if err1 == nil && err2 == nil {
		verifAssert(verifBytesEq(o1, o2), "decoding into a used frame value == decoding into a fresh one")
	}
	verifReach("done")
}

func VerifC10_ReuseCFList(kind int) {
	b1 := verifNondetBytes("first", 16)
	b2 := verifNondetBytes("second", 16)
	verifAssume(b1[15] == byte(kind))
	verifAssume(b2[15] == byte(kind))
	if kind == 1 {
		// bound: the first list has at most three non-empty masks (the mask decoder forks per mask)
		for i := 6; i < 15; i++ {
			verifAssume(b1[i] == 0)
		}
		for i := 8; i < 15; i++ {
			verifAssume(b2[i] == 0)
		}
	}
	var used, fresh CFList
	verifAssert(used.UnmarshalBinary(verifCopy(b1)) == nil, "first decode")
	verifAssert(used.UnmarshalBinary(verifCopy(b2)) == nil, "second decode")
	verifAssert(fresh.UnmarshalBinary(verifCopy(b2)) == nil, "fresh decode")
	o1, e1 := used.MarshalBinary()
	o2, e2 := fresh.MarshalBinary()
	verifAssert(e1 == nil && e2 == nil, "both encode")
	verifAssert(verifBytesEq(o1, o2), "CFList: decoding into a used value == decoding into a fresh value")
	verifReach("done")
}

// Lock discipline of the MAC payload registry: every access happens with the mutex held (reads: read or
// write lock; writes: write lock) and the lock is released on every path. The engine checks each map
// access against the lock-state counters maintained by the sync.RWMutex stubs.
func VerifC10_Locks(L int) {
	verifWatchMap(macPayloadRegistry)
	up := verifNondetBool("uplink")
	cid := verifNondetU8("cid")
	size := verifNondetInt("size")
	verifAssume(size <= 16) // any negative size, realistic positive ones (an implementation may allocate per registration)
	RegisterProprietaryMACCommand(up, CID(cid), size)
	verifAssert(verifLocksReleased(), "RegisterProprietaryMACCommand releases the registry lock on every path")
	data := verifNondetBytes("data", L)
	if L > 0 {
		GetMACPayloadAndSize(up, CID(data[0]))
	} else {
		GetMACPayloadAndSize(up, CID(cid))
	}
	verifAssert(verifLocksReleased(), "GetMACPayloadAndSize releases the registry lock on every path")
	decodeDataPayloadToMACCommands(verifNondetBool("dir"), []Payload{&DataPayload{Bytes: data}})
	verifAssert(verifLocksReleased(), "the stream decoder releases the registry lock on every path")
	var mc MACCommand
	mc.UnmarshalBinary(up, data)
	verifAssert(verifLocksReleased(), "MACCommand.UnmarshalBinary releases the registry lock on every path")
	verifNoGlobalWritesExcept("lorawan.macPayloadRegistry") // C10: no hidden package-level state is written
	verifReach("done")
}

// PHYPayload.EncryptFRMPayload / EncryptFOpts leave the caller's plaintext buffers alone, and the encrypted
// frame does not alias them.
func VerifC10_EncryptKeepsCaller(mt, nFOpts, nFRM int) {
	mtype := c03MType(mt)
	key := AES128Key(verifNondetKey("key"))
	frm := verifNondetBytes("frm", nFRM)
	fo := verifNondetBytes("fopts", nFOpts)
	frmOrig, foOrig := verifCopy(frm), verifCopy(fo)
	port := verifNondetU8("fport")
	verifAssume(port > 0)
	mp := &MACPayload{FPort: &port}
	mp.FHDR.DevAddr = DevAddr(verifNondet4("devaddr"))
	mp.FHDR.FCnt = verifNondetU32("fcnt")
	if nFRM > 0 {
		mp.FRMPayload = []Payload{&DataPayload{Bytes: frm}} // the caller keeps frm
	}
	if nFOpts > 0 {
		mp.FHDR.FOpts = []Payload{&DataPayload{Bytes: fo}}
	}
	p := &PHYPayload{MHDR: MHDR{MType: mtype}, MACPayload: mp}
	verifAssert(p.EncryptFRMPayload(key) == nil, "EncryptFRMPayload succeeds")
	verifAssert(verifBytesEq(frm, frmOrig), "PHYPayload.EncryptFRMPayload does not overwrite the caller's plaintext buffer")
	verifAssert(p.EncryptFOpts(key) == nil, "EncryptFOpts succeeds")
	verifAssert(verifBytesEq(fo, foOrig), "PHYPayload.EncryptFOpts does not overwrite the caller's FOpts buffer")
	out1, err := p.MarshalBinary()
	verifAssert(err == nil, "the encrypted frame encodes")
	snap := verifCopy(out1)
	verifHavoc(frm)
	verifHavoc(fo)
	out2, err := p.MarshalBinary()
	verifAssert(err == nil, "the encrypted frame still encodes")
	verifAssert(verifBytesEq(out2, snap), "the encrypted frame does not alias the caller's plaintext buffers")
	verifReach("done")
}

// Marshal* / Set*MIC / Validate*MIC of a frame whose payload slices are sub-slices of caller buffers with spare
// capacity never write behind those slices (nor into them).
func VerifC10_GuardMarshal(mt, n1, n2 int) {
	mtype := c03MType(mt)
	b1 := verifNondetBytes("foptsBuf", n1+3)
	b2 := verifNondetBytes("frmBuf", n2+3)
	o1, o2 := verifCopy(b1), verifCopy(b2)
	fPort := verifNondetU8("fport")
	verifAssume(fPort > 0)
	mp := &MACPayload{FHDR: FHDR{DevAddr: DevAddr(verifNondet4("devaddr")), FCnt: verifNondetU32("fcnt")}}
	if n1 > 0 {
		mp.FHDR.FOpts = []Payload{&DataPayload{Bytes: b1[:n1]}, &MACCommand{CID: DeviceTimeReq}}
	}
	if n2 > 0 {
		mp.FPort = &fPort
		mp.FRMPayload = []Payload{&DataPayload{Bytes: b2[:n2]}}
	}
	p := PHYPayload{MHDR: MHDR{MType: mtype, Major: LoRaWANR1}, MACPayload: mp}
	_, err := mp.FHDR.MarshalBinary()
	verifAssert(err == nil, "FHDR encodes")
	_, err = p.MarshalBinary()
	verifAssert(err == nil, "frame encodes")
	k := c05DrawKeys()
	ver := c02Version(int(verifNondetU8("version") & 1))
	if specIsUplink(mtype) {
		verifAssert(p.SetUplinkDataMIC(ver, k.confFCnt, k.txDR, k.txCh, AES128Key(k.fNwkSInt), AES128Key(k.sNwkSInt)) == nil, "MIC set")
		p.ValidateUplinkDataMIC(ver, k.confFCnt, k.txDR, k.txCh, AES128Key(k.fNwkSInt), AES128Key(k.sNwkSInt))
	} else {
		verifAssert(p.SetDownlinkDataMIC(ver, k.confFCnt, AES128Key(k.sNwkSInt)) == nil, "MIC set")
		p.ValidateDownlinkDataMIC(ver, k.confFCnt, AES128Key(k.sNwkSInt))
	}
	p.MarshalText()
	verifAssert(verifBytesEq(b1, o1), "encoding / MIC functions do not write into or behind the caller's FOpts bytes")
	verifAssert(verifBytesEq(b2, o2), "encoding / MIC functions do not write into or behind the caller's FRMPayload bytes")
	verifReach("done")
}

func init() {
	// native replay: a leaked registry lock is observed with TryLock
	verifNativeLocksReleased = func() bool {
		if macPayloadMutex.TryLock() {
			macPayloadMutex.Unlock()
			return true
		}
		return false
	}
}
