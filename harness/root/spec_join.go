package lorawan

// Spec-side layouts of join-request, rejoin-request and join-accept (LoRaWAN 1.1 section 6.2).

func specRev8(e EUI64) []byte {
	return []byte{e[7], e[6], e[5], e[4], e[3], e[2], e[1], e[0]}
}

func specJoinRequestBytes(joinEUI, devEUI EUI64, devNonce DevNonce) []byte {
	out := append([]byte{}, specRev8(joinEUI)...)
	out = append(out, specRev8(devEUI)...)
	return append(out, byte(devNonce), byte(devNonce>>8))
}

func specRejoin02Bytes(typ byte, netID NetID, devEUI EUI64, cnt uint16) []byte {
	out := []byte{typ, netID[2], netID[1], netID[0]}
	out = append(out, specRev8(devEUI)...)
	return append(out, byte(cnt), byte(cnt>>8))
}

func specRejoin1Bytes(joinEUI, devEUI EUI64, cnt uint16) []byte {
	out := []byte{1}
	out = append(out, specRev8(joinEUI)...)
	out = append(out, specRev8(devEUI)...)
	return append(out, byte(cnt), byte(cnt>>8))
}

type specJoinAccept struct {
	joinNonce   uint32 // < 2^24
	netID       NetID
	addr        DevAddr
	optNeg      bool
	rx1DROffset uint8 // 0..7
	rx2DR       uint8 // 0..15
	rxDelay     uint8 // 0..15
	cfKind      int   // 0 none, 1 channels, 2 masks
	freqs       [5]uint32
	masks       []uint16
}

// newSpecJoinAccept: cf = 0 no CFList, 1 channel list, 2+k channel-mask list with k masks (0..6).
func newSpecJoinAccept(cf int) *specJoinAccept {
	j := &specJoinAccept{}
	j.joinNonce = verifNondetU32("joinNonce") & 0xffffff
	j.netID = NetID(verifNondet3("netID"))
	j.addr = DevAddr(verifNondet4("devaddr"))
	j.optNeg = verifNondetBool("optNeg")
	j.rx1DROffset = verifNondetU8("rx1DROffset") & 7
	j.rx2DR = verifNondetU8("rx2DR") & 15
	j.rxDelay = verifNondetU8("rxDelay") & 15
	switch {
	case cf == 1:
		j.cfKind = 1
		for i := range j.freqs {
			j.freqs[i] = (verifNondetU32("freq") & 0xffffff) * 100
		}
	case cf >= 2:
		j.cfKind = 2
		for i := 0; i < cf-2; i++ {
			j.masks = append(j.masks, verifNondetU16("chmask"))
		}
	}
	return j
}

func (j *specJoinAccept) bytes() []byte {
	dl := specB2U8(j.optNeg, 0x80) | j.rx1DROffset<<4 | j.rx2DR
	out := []byte{byte(j.joinNonce), byte(j.joinNonce >> 8), byte(j.joinNonce >> 16),
		j.netID[2], j.netID[1], j.netID[0],
		j.addr[3], j.addr[2], j.addr[1], j.addr[0], dl, j.rxDelay}
	switch j.cfKind {
	case 1:
		for _, f := range j.freqs {
			v := f / 100
			out = append(out, byte(v), byte(v>>8), byte(v>>16))
		}
		out = append(out, 0)
	case 2:
		cf := make([]byte, 16)
		for i, m := range j.masks {
			cf[2*i] = byte(m)
			cf[2*i+1] = byte(m >> 8)
		}
		cf[15] = 1
		out = append(out, cf...)
	}
	return out
}

func specChMask(m uint16) ChMask {
	var cm ChMask
	for i := 0; i < 16; i++ {
		cm[i] = m&(1<<uint(i)) != 0
	}
	return cm
}

func (j *specJoinAccept) payload() *JoinAcceptPayload {
	p := &JoinAcceptPayload{JoinNonce: JoinNonce(j.joinNonce), HomeNetID: j.netID, DevAddr: j.addr,
		DLSettings: DLSettings{OptNeg: j.optNeg, RX2DataRate: j.rx2DR, RX1DROffset: j.rx1DROffset}, RXDelay: j.rxDelay}
	switch j.cfKind {
	case 1:
		p.CFList = &CFList{CFListType: CFListChannel, Payload: &CFListChannelPayload{Channels: j.freqs}}
	case 2:
		mp := &CFListChannelMaskPayload{}
		for _, m := range j.masks {
			mp.ChannelMasks = append(mp.ChannelMasks, specChMask(m))
		}
		p.CFList = &CFList{CFListType: CFListChannelMask, Payload: mp}
	}
	return p
}
