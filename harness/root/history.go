package lorawan

// History preludes: calls that the library must refuse.  They are run (as the "pre" part of a history item, see
// engine Item.Pre) before an ordinary harness of the same property in the same process state: whatever an
// implementation keeps between calls (a pooled writer, a cached hash, a memo) must not leak a refused call's state
// into the next one.

// kind 0: FRMPayload without FPort; 1: 16 FOpts bytes; 2: FPort 0 together with FOpts; 3: join-accept RXDelay > 15;
// 4: CFList frequency not a multiple of 100; 5: JoinNonce >= 2^24; 6: rejoin type 1 payload marked as type 0.
func VerifHist_RefusedEncode(kind int) {
	fPort0, fPort := uint8(0), uint8(10)
	var p PHYPayload
	switch kind {
	case 0:
		p = PHYPayload{MHDR: MHDR{MType: UnconfirmedDataUp, Major: LoRaWANR1}, MACPayload: &MACPayload{FHDR: FHDR{DevAddr: DevAddr(verifNondet4("devaddr"))}, FRMPayload: []Payload{&DataPayload{Bytes: verifNondetBytes("frm", 3)}}}}
	case 1:
		p = PHYPayload{MHDR: MHDR{MType: UnconfirmedDataDown, Major: LoRaWANR1}, MACPayload: &MACPayload{FHDR: FHDR{DevAddr: DevAddr(verifNondet4("devaddr")), FOpts: []Payload{&DataPayload{Bytes: verifNondetBytes("fopts", 16)}}}, FPort: &fPort}}
	case 2:
		p = PHYPayload{MHDR: MHDR{MType: ConfirmedDataUp, Major: LoRaWANR1}, MACPayload: &MACPayload{FHDR: FHDR{FOpts: []Payload{&MACCommand{CID: LinkCheckReq}}}, FPort: &fPort0, FRMPayload: []Payload{&DataPayload{Bytes: verifNondetBytes("frm", 2)}}}}
	case 3:
		d := verifNondetU8("rxdelay")
		verifAssume(d > 15)
		p = PHYPayload{MHDR: MHDR{MType: JoinAccept, Major: LoRaWANR1}, MACPayload: &JoinAcceptPayload{RXDelay: d}}
	case 4:
		f := verifNondetU32("freq")
		verifAssume(f%100 != 0)
		p = PHYPayload{MHDR: MHDR{MType: JoinAccept, Major: LoRaWANR1}, MACPayload: &JoinAcceptPayload{CFList: &CFList{CFListType: CFListChannel, Payload: &CFListChannelPayload{Channels: [5]uint32{f}}}}}
	case 5:
		n := verifNondetU32("joinNonce")
		verifAssume(n >= 1<<24)
		p = PHYPayload{MHDR: MHDR{MType: JoinAccept, Major: LoRaWANR1}, MACPayload: &JoinAcceptPayload{JoinNonce: JoinNonce(n)}}
	case 6:
		p = PHYPayload{MHDR: MHDR{MType: RejoinRequest, Major: LoRaWANR1}, MACPayload: &RejoinRequestType02Payload{RejoinType: 1}}
	}
	_, err := p.MarshalBinary()
	verifAssert(err != nil, "a frame the specification does not allow is refused by the encoder")
	_, err = p.MarshalText()
	verifAssert(err != nil, "a frame the specification does not allow is refused by the text encoder")
	// the MIC functions refuse it as well (they encode the payload first)
	key := AES128Key(verifNondetKey("key"))
	switch p.MHDR.MType {
	case JoinAccept:
		verifAssert(p.SetDownlinkJoinMIC(JoinRequestType, EUI64(verifNondet8("joinEUI")), DevNonce(verifNondetU16("devNonce")), key) != nil, "SetDownlinkJoinMIC refuses an unencodable join-accept")
	case RejoinRequest:
		verifAssert(p.SetUplinkJoinMIC(key) != nil, "SetUplinkJoinMIC refuses an unencodable rejoin-request")
		ok, err := p.ValidateUplinkJoinMIC(key)
		verifAssert(err != nil && !ok, "ValidateUplinkJoinMIC refuses an unencodable rejoin-request")
	case UnconfirmedDataUp, ConfirmedDataUp:
		verifAssert(p.SetUplinkDataMIC(LoRaWAN1_1, verifNondetU32("confFCnt"), verifNondetU8("txDR"), verifNondetU8("txCh"), key, key) != nil, "SetUplinkDataMIC refuses an unencodable frame")
	default:
		verifAssert(p.SetDownlinkDataMIC(LoRaWAN1_1, verifNondetU32("confFCnt"), key) != nil, "SetDownlinkDataMIC refuses an unencodable frame")
	}
	verifReach("refused")
}
