package lorawan

// C11: DevAddr / NetID prefix algebra; identifier representations.

var specNwkIDBits = [8]int{6, 6, 9, 11, 12, 13, 15, 17}
var specNetIDIDBits = [8]int{6, 6, 9, 21, 21, 21, 21, 21}

func be32(a DevAddr) uint32 {
	return uint32(a[0])<<24 | uint32(a[1])<<16 | uint32(a[2])<<8 | uint32(a[3])
}

func be24(n NetID) uint32 { return uint32(n[0])<<16 | uint32(n[1])<<8 | uint32(n[2]) }

func beBytes(x uint32, n int) []byte {
	out := make([]byte, n)
	for i := 0; i < n; i++ {
		out[n-1-i] = byte(x >> uint(8*i))
	}
	return out
}

// one path per NetID type t (0..7)
func VerifC11_Prefix(t int) {
	netID := NetID(verifNondet3("netid"))
	verifAssume(int(netID[0]>>5) == t)
	addr := DevAddr(verifNondet4("devaddr"))
	pl := t + 1               // type prefix length: t ones followed by a zero
	nb := specNwkIDBits[t]    // NwkID width
	rest := uint(32 - pl - nb) // NwkAddr width
	pattern := (uint32(1)<<uint(t) - 1) << 1
	id := be24(netID) & (1<<uint(specNetIDIDBits[t]) - 1) // ID field of the NetID
	nwkID := id & (1<<uint(nb) - 1)                         // its low-order bits
	want := pattern<<uint(32-pl) | nwkID<<rest | be32(addr)&(1<<rest-1)

	verifAssert(netID.Type() == t, "NetID.Type == top three bits")
	idBytes := netID.ID()
	nIDBytes := (specNetIDIDBits[t] + 7) / 8
	verifAssert(verifBytesEq(idBytes, beBytes(id, nIDBytes)), "NetID.ID == ID field (big endian, minimal bytes)")

	a := addr
	a.SetAddrPrefix(netID)
	verifAssert(be32(a) == want, "SetAddrPrefix: type prefix | NwkID (low bits of the NetID ID) | untouched NwkAddr bits")
	verifAssert(a.NetIDType() == t, "NetIDType of the prefixed address == NetID type")
	verifAssert(verifBytesEq(a.NwkID(), beBytes(nwkID, (nb+7)/8)), "NwkID of the prefixed address == low bits of the NetID ID")
	verifAssert(a.IsNetID(netID), "the prefixed address is a member of the NetID")

	// membership for an arbitrary address
	b := DevAddr(verifNondet4("other"))
	member := verifAnd(be32(b)>>uint(32-pl) == pattern, (be32(b)>>rest)&(1<<uint(nb)-1) == nwkID)
	verifAssert(b.IsNetID(netID) == member, "IsNetID: true exactly for addresses carrying this type prefix and NwkID")
	verifReach("done")
}

// NetIDType / NwkID of an arbitrary address (all 2^32).
func VerifC11_AddrFields() {
	b := DevAddr(verifNondet4("addr"))
	x := be32(b)
	got := b.NetIDType()
	for t := 0; t < 8; t++ {
		pl := t + 1
		pattern := (uint32(1)<<uint(t) - 1) << 1
		if x>>uint(32-pl) == pattern {
			verifAssert(got == t, "NetIDType == number of leading one bits")
			nb := specNwkIDBits[t]
			rest := uint(32 - pl - nb)
			verifAssert(verifBytesEq(b.NwkID(), beBytes((x>>rest)&(1<<uint(nb)-1), (nb+7)/8)), "NwkID == bits after the type prefix")
			verifReach("typed")
			return
		}
	}
	verifAssert(got == -1, "NetIDType == -1 for the all-ones prefix")
	verifAssert(b.NwkID() == nil, "NwkID == nil for the all-ones prefix")
	verifReach("untyped")
}

// Representation round trips. typ: 0 EUI64, 1 DevAddr, 2 NetID, 3 AES128Key. mode: 0 plain hex, 1 with 0x prefix.
func VerifC11_ReprText(typ, mode int) {
	prefix := ""
	if mode == 1 {
		prefix = "0x"
	}
	switch typ {
	case 0:
		v := EUI64(verifNondet8("v"))
		t, err := v.MarshalText()
		verifAssert(err == nil, "MarshalText ok")
		var w EUI64
		err = w.UnmarshalText([]byte(prefix + string(t)))
		verifAssert(err == nil, "UnmarshalText ok")
		verifAssert(w == v, "EUI64 text round trip")
	case 1:
		v := DevAddr(verifNondet4("v"))
		t, err := v.MarshalText()
		verifAssert(err == nil, "MarshalText ok")
		var w DevAddr
		err = w.UnmarshalText([]byte(prefix + string(t)))
		verifAssert(err == nil, "UnmarshalText ok")
		verifAssert(w == v, "DevAddr text round trip")
	case 2:
		v := NetID(verifNondet3("v"))
		t, err := v.MarshalText()
		verifAssert(err == nil, "MarshalText ok")
		var w NetID
		err = w.UnmarshalText([]byte(prefix + string(t)))
		verifAssert(err == nil, "UnmarshalText ok")
		verifAssert(w == v, "NetID text round trip")
	case 3:
		v := AES128Key(verifNondetKey("v"))
		t, err := v.MarshalText()
		verifAssert(err == nil, "MarshalText ok")
		var w AES128Key
		err = w.UnmarshalText([]byte(prefix + string(t)))
		verifAssert(err == nil, "UnmarshalText ok")
		verifAssert(w == v, "AES128Key text round trip")
	}
	verifReach("done")
}

func c11Rev(b []byte) []byte {
	out := make([]byte, len(b))
	for i := range b {
		out[len(b)-1-i] = b[i]
	}
	return out
}

// Binary (byte-reversed) and database (Value/Scan) representations, including wrong lengths n.
func VerifC11_ReprBinary(typ, n int) {
	data := verifNondetBytes("data", n)
	var size int
	var errB, errS, errS2 error
	var backB, backS []byte
	switch typ {
	case 0:
		size = 8
		var v, w EUI64
		errB = v.UnmarshalBinary(verifCopy(data))
		errS = w.Scan(verifCopy(data))
		errS2 = w.Scan("text")
		if n == size {
			backB, _ = v.MarshalBinary()
			verifAssert(verifBytesEq(v[:], c11Rev(data)), "UnmarshalBinary == byte reversal")
			val, _ := w.Value()
			backS = val.([]byte)
		}
	case 1:
		size = 4
		var v, w DevAddr
		errB = v.UnmarshalBinary(verifCopy(data))
		errS = w.Scan(verifCopy(data))
		errS2 = w.Scan("text")
		if n == size {
			backB, _ = v.MarshalBinary()
			verifAssert(verifBytesEq(v[:], c11Rev(data)), "UnmarshalBinary == byte reversal")
			val, _ := w.Value()
			backS = val.([]byte)
		}
	case 2:
		size = 3
		var v, w NetID
		errB = v.UnmarshalBinary(verifCopy(data))
		errS = w.Scan(verifCopy(data))
		errS2 = w.Scan("text")
		if n == size {
			backB, _ = v.MarshalBinary()
			verifAssert(verifBytesEq(v[:], c11Rev(data)), "UnmarshalBinary == byte reversal")
			val, _ := w.Value()
			backS = val.([]byte)
		}
	case 3:
		size = 16
		var v, w AES128Key
		errB = v.UnmarshalBinary(verifCopy(data))
		errS = w.Scan(verifCopy(data))
		errS2 = w.Scan("text")
		if n == size {
			backB, _ = v.MarshalBinary()
			verifAssert(verifBytesEq(v[:], c11Rev(data)), "UnmarshalBinary == byte reversal")
			val, _ := w.Value()
			backS = val.([]byte)
		}
	}
	verifAssert(errS2 != nil, "Scan of a non-[]byte value is rejected")
	if n != size {
		verifAssert(errB != nil, "UnmarshalBinary rejects a wrong length")
		verifAssert(errS != nil, "Scan rejects a wrong length")
		verifReach("rejected")
		return
	}
	verifAssert(errB == nil, "UnmarshalBinary accepts the exact length")
	verifAssert(errS == nil, "Scan accepts the exact length")
	verifAssert(verifBytesEq(backB, data), "MarshalBinary(UnmarshalBinary(b)) == b")
	verifAssert(verifBytesEq(backS, data), "Value(Scan(b)) == b")
	verifReach("done")
}

// Text of the wrong length (n hex characters, all valid digits) is rejected.
func VerifC11_ReprTextLen(typ, n int) {
	txt := make([]byte, n)
	for i := range txt {
		d := verifNondetU8("digit") & 15
		txt[i] = verifIteU8(d < 10, '0'+d, 'a'+d-10)
	}
	var err error
	size := 0
	switch typ {
	case 0:
		size = 8
		var w EUI64
		err = w.UnmarshalText(txt)
	case 1:
		size = 4
		var w DevAddr
		err = w.UnmarshalText(txt)
	case 2:
		size = 3
		var w NetID
		err = w.UnmarshalText(txt)
	case 3:
		size = 16
		var w AES128Key
		err = w.UnmarshalText(txt)
	}
	verifAssert((err == nil) == (n == 2*size), "UnmarshalText accepts exactly 2*size hex digits")
	verifReach("done")
}
