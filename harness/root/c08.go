package lorawan

// C08: accepted frames are canonical: decode -> encode reproduces the received bytes.

func VerifC08_Canonical(L int) {
	data := verifNondetBytes("data", L)
	if L > 0 {
		verifAssume(data[0]&0x1c == 0) // the three reserved MHDR bits are zero
	}
	var p PHYPayload
	if err := p.UnmarshalBinary(verifCopy(data)); err != nil {
		verifReach("rejected")
		return
	}
	out, err := p.MarshalBinary()
	// region of the recorded defect: FOpts present, FPort byte 0, no FRMPayload
	region := false
	if mp, ok := p.MACPayload.(*MACPayload); ok {
		region = mp.FPort != nil && *mp.FPort == 0 && len(mp.FHDR.FOpts) > 0 && len(mp.FRMPayload) == 0
	}
	verifAssertKnown("C08-fopts-fport0-empty-frm", region, err == nil, "a frame the decoder accepts can be re-encoded")
	if err != nil {
		verifReach("accepted-not-encodable")
		return
	}
	verifAssert(verifBytesEq(out, data), "re-encoding an accepted frame is byte-identical to the input")
	var q PHYPayload
	err = q.UnmarshalBinary(verifCopy(out))
	verifAssert(err == nil, "the re-encoded frame decodes again")
	out2, err := q.MarshalBinary()
	verifAssert(err == nil, "the re-decoded frame encodes")
	verifAssert(verifBytesEq(out2, out), "decode(encode(decode(x))) encodes to the same bytes")
	verifAssert(q.MHDR == p.MHDR, "re-decoded MHDR equal")
	verifAssert(q.MIC == p.MIC, "re-decoded MIC equal")
	verifReach("accepted")
}
