package lorawan

import "time"

// Table-driven description of the 29 MAC-command payloads (LoRaWAN 1.0.4 / 1.1 section 5,
// DESIGN.md appendix B). A field is a bit range of the payload read as one little-endian
// integer; "logical" values are what the application sees (Hz, signed margin, ...).

type mfKind int

const (
	mfU        mfKind = iota // plain unsigned
	mfFreq                   // Hz, wire = Hz/100 (24 bit)
	mfFreqNC                 // NewChannelReq: Hz/100 below 2.4 GHz, Hz/200 from 2.4 GHz
	mfMargin                 // 6-bit two's complement, logical = sign-extended int
	mfFlag                   // 1-bit boolean
	mfU4or255                // DutyCycleReq.MaxDCycle: 0..15, 1.0.x also defines 255 (permissive)
	mfRejoinTy               // ForceRejoinReq.RejoinType: 3 bits, only 0 and 2 are defined
	mfMinor                  // Version.Minor: 4 bits on the wire, library accepts 0..7 (permissive upper range)
)

type mField struct {
	name  string
	pos   int // LSB position in the little-endian payload integer
	width int
	kind  mfKind
	gobits int // width of the Go field (domain of out-of-range values)
}

type mSpec struct {
	name   string
	cid    CID
	uplink bool
	size   int
	fields []mField
}

func u(name string, pos, width, gobits int) mField { return mField{name, pos, width, mfU, gobits} }
func fl(name string, pos int) mField             { return mField{name, pos, 1, mfFlag, 1} }

var macSpecs = []mSpec{
	// downlink (network -> device)
	{"ResetConf", ResetConf, false, 1, []mField{{"Minor", 0, 4, mfMinor, 8}}},
	{"LinkCheckAns", LinkCheckAns, false, 2, []mField{u("Margin", 0, 8, 8), u("GwCnt", 8, 8, 8)}},
	{"LinkADRReq", LinkADRReq, false, 4, []mField{u("TXPower", 0, 4, 8), u("DataRate", 4, 4, 8), u("ChMask", 8, 16, 16), u("NbRep", 24, 4, 8), u("ChMaskCntl", 28, 3, 8)}},
	{"DutyCycleReq", DutyCycleReq, false, 1, []mField{{"MaxDCycle", 0, 4, mfU4or255, 8}}},
	{"RXParamSetupReq", RXParamSetupReq, false, 4, []mField{u("RX2DataRate", 0, 4, 8), u("RX1DROffset", 4, 3, 8), {"Frequency", 8, 24, mfFreq, 32}}},
	{"NewChannelReq", NewChannelReq, false, 5, []mField{u("ChIndex", 0, 8, 8), {"Freq", 8, 24, mfFreqNC, 32}, u("MinDR", 32, 4, 8), u("MaxDR", 36, 4, 8)}},
	{"RXTimingSetupReq", RXTimingSetupReq, false, 1, []mField{u("Delay", 0, 4, 8)}},
	{"TXParamSetupReq", TXParamSetupReq, false, 1, []mField{u("MaxEIRP", 0, 4, 8), {"UplinkDwellTime", 4, 1, mfU, 64}, {"DownlinkDwellTime", 5, 1, mfU, 64}}},
	{"DLChannelReq", DLChannelReq, false, 4, []mField{u("ChIndex", 0, 8, 8), {"Freq", 8, 24, mfFreq, 32}}},
	{"RekeyConf", RekeyConf, false, 1, []mField{{"Minor", 0, 4, mfMinor, 8}}},
	{"ADRParamSetupReq", ADRParamSetupReq, false, 1, []mField{u("DelayExp", 0, 4, 8), u("LimitExp", 4, 4, 8)}},
	{"DeviceTimeAns", DeviceTimeAns, false, 5, []mField{u("Seconds", 0, 32, 32), u("Fraction", 32, 8, 8)}},
	{"ForceRejoinReq", ForceRejoinReq, false, 2, []mField{u("DR", 0, 4, 8), {"RejoinType", 4, 3, mfRejoinTy, 8}, u("MaxRetries", 8, 3, 8), u("Period", 11, 3, 8)}},
	{"RejoinParamSetupReq", RejoinParamSetupReq, false, 1, []mField{u("MaxCountN", 0, 4, 8), u("MaxTimeN", 4, 4, 8)}},
	{"PingSlotChannelReq", PingSlotChannelReq, false, 4, []mField{{"Frequency", 0, 24, mfFreq, 32}, u("DR", 24, 4, 8)}},
	{"BeaconFreqReq", BeaconFreqReq, false, 3, []mField{{"Frequency", 0, 24, mfFreq, 32}}},
	{"DeviceModeConf", DeviceModeConf, false, 1, []mField{u("Class", 0, 8, 8)}},
	// uplink (device -> network)
	{"ResetInd", ResetInd, true, 1, []mField{{"Minor", 0, 4, mfMinor, 8}}},
	{"LinkADRAns", LinkADRAns, true, 1, []mField{fl("ChannelMaskACK", 0), fl("DataRateACK", 1), fl("PowerACK", 2)}},
	{"RXParamSetupAns", RXParamSetupAns, true, 1, []mField{fl("ChannelACK", 0), fl("RX2DataRateACK", 1), fl("RX1DROffsetACK", 2)}},
	{"DevStatusAns", DevStatusAns, true, 2, []mField{u("Battery", 0, 8, 8), {"Margin", 8, 6, mfMargin, 8}}},
	{"NewChannelAns", NewChannelAns, true, 1, []mField{fl("ChannelFrequencyOK", 0), fl("DataRateRangeOK", 1)}},
	{"DLChannelAns", DLChannelAns, true, 1, []mField{fl("ChannelFrequencyOK", 0), fl("UplinkFrequencyExists", 1)}},
	{"PingSlotInfoReq", PingSlotInfoReq, true, 1, []mField{u("Periodicity", 0, 3, 8)}},
	{"BeaconFreqAns", BeaconFreqAns, true, 1, []mField{fl("BeaconFrequencyOK", 0)}},
	{"PingSlotChannelAns", PingSlotChannelAns, true, 1, []mField{fl("ChannelFrequencyOK", 0), fl("DataRateOK", 1)}},
	{"RekeyInd", RekeyInd, true, 1, []mField{{"Minor", 0, 4, mfMinor, 8}}},
	{"RejoinParamSetupAns", RejoinParamSetupAns, true, 1, []mField{fl("TimeOK", 0)}},
	{"DeviceModeInd", DeviceModeInd, true, 1, []mField{u("Class", 0, 8, 8)}},
}

// commands without payload, by direction (not in the registry)
var macNoPayloadDown = []CID{DevStatusReq, PingSlotInfoAns}
var macNoPayloadUp = []CID{LinkCheckReq, DutyCycleAns, RXTimingSetupAns, TXParamSetupAns, ADRParamSetupAns, DeviceTimeReq}

func mMask(w int) uint64 { return (uint64(1) << uint(w)) - 1 }

// inRange: the logical value is one the specification allows for the field.
func (f mField) inRange(v uint64) bool {
	switch f.kind {
	case mfFreq:
		return verifAnd(v%100 == 0, v/100 < 1<<24)
	case mfFreqNC:
		lo := verifAnd(v%100 == 0, v/100 < 12000000) // wire values >= 12000000 denote 2.4 GHz frequencies
		hi := verifAnd(v >= 2400000000, verifAnd(v%200 == 0, v/200 < 1<<24))
		return verifOr(lo, hi)
	case mfMargin:
		s := int64(v)
		return verifAnd(s >= -32, s <= 31)
	case mfU4or255:
		return verifOr(v <= 15, v == 255)
	case mfRejoinTy:
		return verifOr(v == 0, v == 2)
	case mfMinor:
		return v <= 7
	}
	return v <= mMask(f.width)
}

// wire: logical value -> bit-field value (for in-range values).
func (f mField) wire(v uint64) uint64 {
	switch f.kind {
	case mfFreq:
		return v / 100
	case mfFreqNC:
		return verifIteU64(v >= 2400000000, v/200, v/100)
	case mfMargin:
		return v & 0x3f
	}
	return v
}

// logical: bit-field value (already masked to the field width) -> logical value.
func (f mField) logical(w uint64) uint64 {
	switch f.kind {
	case mfFreq:
		return w * 100
	case mfFreqNC:
		return verifIteU64(w >= 12000000, w*200, w*100)
	case mfMargin:
		return verifIteU64(w&0x20 != 0, w|^uint64(0x3f), w)
	}
	return w
}

// draw returns a symbolic logical value; full = whole Go domain of the field, else only in-range values.
func (f mField) draw(full bool) uint64 {
	var v uint64
	switch {
	case f.kind == mfMargin:
		v = uint64(int64(verifNondetI8(f.name)))
	case f.gobits == 1:
		v = verifIteU64(verifNondetBool(f.name), 1, 0)
	case f.gobits == 8:
		v = uint64(verifNondetU8(f.name))
	case f.gobits == 16:
		v = uint64(verifNondetU16(f.name))
	case f.gobits == 32:
		v = uint64(verifNondetU32(f.name))
	default:
		v = verifNondetU64(f.name)
	}
	if !full {
		switch f.kind {
		case mfFreq:
			// v = 100 * x, x < 2^24 (avoids a division in the assumption)
			v = (v & 0xffffff) * 100
		case mfFreqNC:
			// two cases (explored as two paths): below 2.4 GHz in 100 Hz steps, from 2.4 GHz in 200 Hz steps
			x := v & 0xffffff
			if verifNondetBool("band2g4") {
				verifAssume(x >= 12000000)
				v = x * 200
			} else {
				verifAssume(x < 12000000)
				v = x * 100
			}
		default:
			verifAssume(f.inRange(v))
		}
	}
	return v
}

func (s *mSpec) draw(full bool) []uint64 {
	vals := make([]uint64, len(s.fields))
	for i, f := range s.fields {
		vals[i] = f.draw(full)
	}
	return vals
}

func (s *mSpec) inRange(vals []uint64) bool {
	ok := true
	for i, f := range s.fields {
		ok = verifAnd(ok, f.inRange(vals[i]))
	}
	return ok
}

// pack: payload as little-endian integer.
func (s *mSpec) pack(vals []uint64) uint64 {
	var x uint64
	for i, f := range s.fields {
		w := f.width
		if f.kind == mfU4or255 {
			w = 8 // the 1.0.x value 255 occupies the whole byte
		}
		x |= (f.wire(vals[i]) & mMask(w)) << uint(f.pos)
	}
	return x
}

// unpack: logical field values of a received payload; bits outside all fields (RFU) are ignored.
func (s *mSpec) unpack(x uint64) []uint64 {
	vals := make([]uint64, len(s.fields))
	for i, f := range s.fields {
		vals[i] = f.logical((x >> uint(f.pos)) & mMask(f.width))
	}
	return vals
}

// rfuClear: all bits that belong to no field are zero.
func (s *mSpec) rfuClear(x uint64) bool {
	var used uint64
	for _, f := range s.fields {
		used |= mMask(f.width) << uint(f.pos)
	}
	all := mMask(8 * s.size)
	return x&(all&^used) == 0
}

func leInt(b []byte) uint64 {
	var x uint64
	for i := range b {
		x |= uint64(b[i]) << uint(8*i)
	}
	return x
}

func leBytes(x uint64, n int) []byte {
	b := make([]byte, n)
	for i := range b {
		b[i] = byte(x >> uint(8*i))
	}
	return b
}

func b2u(b bool) uint64 { return verifIteU64(b, 1, 0) }

// mkPayload builds the typed library value from logical field values (glue, one case per type).
func mkPayload(s *mSpec, v []uint64) MACCommandPayload {
	switch s.name {
	case "ResetConf":
		return &ResetConfPayload{ServLoRaWANVersion: Version{Minor: uint8(v[0])}}
	case "LinkCheckAns":
		return &LinkCheckAnsPayload{Margin: uint8(v[0]), GwCnt: uint8(v[1])}
	case "LinkADRReq":
		return &LinkADRReqPayload{TXPower: uint8(v[0]), DataRate: uint8(v[1]), ChMask: specChMask(uint16(v[2])), Redundancy: Redundancy{NbRep: uint8(v[3]), ChMaskCntl: uint8(v[4])}}
	case "DutyCycleReq":
		return &DutyCycleReqPayload{MaxDCycle: uint8(v[0])}
	case "RXParamSetupReq":
		return &RXParamSetupReqPayload{DLSettings: DLSettings{RX2DataRate: uint8(v[0]), RX1DROffset: uint8(v[1])}, Frequency: uint32(v[2])}
	case "NewChannelReq":
		return &NewChannelReqPayload{ChIndex: uint8(v[0]), Freq: uint32(v[1]), MinDR: uint8(v[2]), MaxDR: uint8(v[3])}
	case "RXTimingSetupReq":
		return &RXTimingSetupReqPayload{Delay: uint8(v[0])}
	case "TXParamSetupReq":
		return &TXParamSetupReqPayload{MaxEIRP: uint8(v[0]), UplinkDwellTime: DwellTime(v[1]), DownlinkDwelltime: DwellTime(v[2])}
	case "DLChannelReq":
		return &DLChannelReqPayload{ChIndex: uint8(v[0]), Freq: uint32(v[1])}
	case "RekeyConf":
		return &RekeyConfPayload{ServLoRaWANVersion: Version{Minor: uint8(v[0])}}
	case "ADRParamSetupReq":
		return &ADRParamSetupReqPayload{ADRParam: ADRParam{DelayExp: uint8(v[0]), LimitExp: uint8(v[1])}}
	case "DeviceTimeAns":
		return &DeviceTimeAnsPayload{TimeSinceGPSEpoch: specDeviceTime(v[0], v[1])}
	case "ForceRejoinReq":
		return &ForceRejoinReqPayload{DR: uint8(v[0]), RejoinType: uint8(v[1]), MaxRetries: uint8(v[2]), Period: uint8(v[3])}
	case "RejoinParamSetupReq":
		return &RejoinParamSetupReqPayload{MaxCountN: uint8(v[0]), MaxTimeN: uint8(v[1])}
	case "PingSlotChannelReq":
		return &PingSlotChannelReqPayload{Frequency: uint32(v[0]), DR: uint8(v[1])}
	case "BeaconFreqReq":
		return &BeaconFreqReqPayload{Frequency: uint32(v[0])}
	case "DeviceModeConf":
		return &DeviceModeConfPayload{Class: DeviceModeClass(v[0])}
	case "ResetInd":
		return &ResetIndPayload{DevLoRaWANVersion: Version{Minor: uint8(v[0])}}
	case "LinkADRAns":
		return &LinkADRAnsPayload{ChannelMaskACK: v[0] != 0, DataRateACK: v[1] != 0, PowerACK: v[2] != 0}
	case "RXParamSetupAns":
		return &RXParamSetupAnsPayload{ChannelACK: v[0] != 0, RX2DataRateACK: v[1] != 0, RX1DROffsetACK: v[2] != 0}
	case "DevStatusAns":
		return &DevStatusAnsPayload{Battery: uint8(v[0]), Margin: int8(v[1])}
	case "NewChannelAns":
		return &NewChannelAnsPayload{ChannelFrequencyOK: v[0] != 0, DataRateRangeOK: v[1] != 0}
	case "DLChannelAns":
		return &DLChannelAnsPayload{ChannelFrequencyOK: v[0] != 0, UplinkFrequencyExists: v[1] != 0}
	case "PingSlotInfoReq":
		return &PingSlotInfoReqPayload{Periodicity: uint8(v[0])}
	case "BeaconFreqAns":
		return &BeaconFreqAnsPayload{BeaconFrequencyOK: v[0] != 0}
	case "PingSlotChannelAns":
		return &PingSlotChannelAnsPayload{ChannelFrequencyOK: v[0] != 0, DataRateOK: v[1] != 0}
	case "RekeyInd":
		return &RekeyIndPayload{DevLoRaWANVersion: Version{Minor: uint8(v[0])}}
	case "RejoinParamSetupAns":
		return &RejoinParamSetupAnsPayload{TimeOK: v[0] != 0}
	case "DeviceModeInd":
		return &DeviceModeIndPayload{Class: DeviceModeClass(v[0])}
	}
	return nil
}

func specChMaskBits(cm ChMask) uint64 {
	var x uint64
	for i := 0; i < 16; i++ {
		x |= b2u(cm[i]) << uint(i)
	}
	return x
}

// specDeviceTime: (seconds, 1/256 s fraction) -> duration since GPS epoch.
func specDeviceTime(sec, frac uint64) time.Duration {
	return time.Duration(int64(sec)*1000000000 + int64(frac)*3906250)
}

// rdPayload reads the logical field values back from a typed library value; ok=false on a type mismatch.
func rdPayload(s *mSpec, p MACCommandPayload) ([]uint64, bool) {
	switch s.name {
	case "ResetConf":
		if q, ok := p.(*ResetConfPayload); ok {
			return []uint64{uint64(q.ServLoRaWANVersion.Minor)}, true
		}
	case "LinkCheckAns":
		if q, ok := p.(*LinkCheckAnsPayload); ok {
			return []uint64{uint64(q.Margin), uint64(q.GwCnt)}, true
		}
	case "LinkADRReq":
		if q, ok := p.(*LinkADRReqPayload); ok {
			return []uint64{uint64(q.TXPower), uint64(q.DataRate), specChMaskBits(q.ChMask), uint64(q.Redundancy.NbRep), uint64(q.Redundancy.ChMaskCntl)}, true
		}
	case "DutyCycleReq":
		if q, ok := p.(*DutyCycleReqPayload); ok {
			return []uint64{uint64(q.MaxDCycle)}, true
		}
	case "RXParamSetupReq":
		if q, ok := p.(*RXParamSetupReqPayload); ok {
			return []uint64{uint64(q.DLSettings.RX2DataRate), uint64(q.DLSettings.RX1DROffset), uint64(q.Frequency)}, true
		}
	case "NewChannelReq":
		if q, ok := p.(*NewChannelReqPayload); ok {
			return []uint64{uint64(q.ChIndex), uint64(q.Freq), uint64(q.MinDR), uint64(q.MaxDR)}, true
		}
	case "RXTimingSetupReq":
		if q, ok := p.(*RXTimingSetupReqPayload); ok {
			return []uint64{uint64(q.Delay)}, true
		}
	case "TXParamSetupReq":
		if q, ok := p.(*TXParamSetupReqPayload); ok {
			return []uint64{uint64(q.MaxEIRP), uint64(q.UplinkDwellTime), uint64(q.DownlinkDwelltime)}, true
		}
	case "DLChannelReq":
		if q, ok := p.(*DLChannelReqPayload); ok {
			return []uint64{uint64(q.ChIndex), uint64(q.Freq)}, true
		}
	case "RekeyConf":
		if q, ok := p.(*RekeyConfPayload); ok {
			return []uint64{uint64(q.ServLoRaWANVersion.Minor)}, true
		}
	case "ADRParamSetupReq":
		if q, ok := p.(*ADRParamSetupReqPayload); ok {
			return []uint64{uint64(q.ADRParam.DelayExp), uint64(q.ADRParam.LimitExp)}, true
		}
	case "DeviceTimeAns":
		if q, ok := p.(*DeviceTimeAnsPayload); ok {
			// seconds and fraction are recovered by the harness from the duration (see c06/c07)
			return []uint64{uint64(q.TimeSinceGPSEpoch), 0}, true
		}
	case "ForceRejoinReq":
		if q, ok := p.(*ForceRejoinReqPayload); ok {
			return []uint64{uint64(q.DR), uint64(q.RejoinType), uint64(q.MaxRetries), uint64(q.Period)}, true
		}
	case "RejoinParamSetupReq":
		if q, ok := p.(*RejoinParamSetupReqPayload); ok {
			return []uint64{uint64(q.MaxCountN), uint64(q.MaxTimeN)}, true
		}
	case "PingSlotChannelReq":
		if q, ok := p.(*PingSlotChannelReqPayload); ok {
			return []uint64{uint64(q.Frequency), uint64(q.DR)}, true
		}
	case "BeaconFreqReq":
		if q, ok := p.(*BeaconFreqReqPayload); ok {
			return []uint64{uint64(q.Frequency)}, true
		}
	case "DeviceModeConf":
		if q, ok := p.(*DeviceModeConfPayload); ok {
			return []uint64{uint64(q.Class)}, true
		}
	case "ResetInd":
		if q, ok := p.(*ResetIndPayload); ok {
			return []uint64{uint64(q.DevLoRaWANVersion.Minor)}, true
		}
	case "LinkADRAns":
		if q, ok := p.(*LinkADRAnsPayload); ok {
			return []uint64{b2u(q.ChannelMaskACK), b2u(q.DataRateACK), b2u(q.PowerACK)}, true
		}
	case "RXParamSetupAns":
		if q, ok := p.(*RXParamSetupAnsPayload); ok {
			return []uint64{b2u(q.ChannelACK), b2u(q.RX2DataRateACK), b2u(q.RX1DROffsetACK)}, true
		}
	case "DevStatusAns":
		if q, ok := p.(*DevStatusAnsPayload); ok {
			return []uint64{uint64(q.Battery), uint64(int64(q.Margin))}, true
		}
	case "NewChannelAns":
		if q, ok := p.(*NewChannelAnsPayload); ok {
			return []uint64{b2u(q.ChannelFrequencyOK), b2u(q.DataRateRangeOK)}, true
		}
	case "DLChannelAns":
		if q, ok := p.(*DLChannelAnsPayload); ok {
			return []uint64{b2u(q.ChannelFrequencyOK), b2u(q.UplinkFrequencyExists)}, true
		}
	case "PingSlotInfoReq":
		if q, ok := p.(*PingSlotInfoReqPayload); ok {
			return []uint64{uint64(q.Periodicity)}, true
		}
	case "BeaconFreqAns":
		if q, ok := p.(*BeaconFreqAnsPayload); ok {
			return []uint64{b2u(q.BeaconFrequencyOK)}, true
		}
	case "PingSlotChannelAns":
		if q, ok := p.(*PingSlotChannelAnsPayload); ok {
			return []uint64{b2u(q.ChannelFrequencyOK), b2u(q.DataRateOK)}, true
		}
	case "RekeyInd":
		if q, ok := p.(*RekeyIndPayload); ok {
			return []uint64{uint64(q.DevLoRaWANVersion.Minor)}, true
		}
	case "RejoinParamSetupAns":
		if q, ok := p.(*RejoinParamSetupAnsPayload); ok {
			return []uint64{b2u(q.TimeOK)}, true
		}
	case "DeviceModeInd":
		if q, ok := p.(*DeviceModeIndPayload); ok {
			return []uint64{uint64(q.Class)}, true
		}
	}
	return nil, false
}
