package lorawan

// C01: frame encode/decode round trip for every message type.

func c01Bytes(ps []Payload) ([]byte, bool) {
	if len(ps) == 0 {
		return nil, true
	}
	if len(ps) != 1 {
		return nil, false
	}
	dp, ok := ps[0].(*DataPayload)
	if !ok {
		return nil, false
	}
	return dp.Bytes, true
}

func c01CheckData(d *specData, q *PHYPayload, mic [4]byte) {
	verifAssert(q.MHDR.MType == d.mtype, "decoded MType equal")
	verifAssert(byte(q.MHDR.Major) == d.major, "decoded Major equal")
	verifAssert(q.MIC == MIC(mic), "decoded MIC equal")
	mp, ok := q.MACPayload.(*MACPayload)
	verifAssert(ok, "data frame decodes into a MACPayload")
	verifAssert(mp.FHDR.DevAddr == d.addr, "decoded DevAddr equal")
	verifAssert(mp.FHDR.FCtrl.ADR == d.adr, "decoded ADR equal")
	verifAssert(mp.FHDR.FCtrl.ADRACKReq == d.adrAckReq, "decoded ADRACKReq equal")
	verifAssert(mp.FHDR.FCtrl.ACK == d.ack, "decoded ACK equal")
	verifAssert(mp.FHDR.FCtrl.ClassB == d.bit4, "decoded ClassB/FPending bit equal (ClassB view)")
	verifAssert(mp.FHDR.FCtrl.FPending == d.bit4, "decoded ClassB/FPending bit equal (FPending view)")
	verifAssert(mp.FHDR.FCnt == d.fcnt&0xffff, "decoded FCnt equal modulo 2^16")
	fo, ok := c01Bytes(mp.FHDR.FOpts)
	verifAssert(ok, "decoded FOpts is a single byte payload")
	verifAssert(verifBytesEq(fo, d.fopts), "decoded FOpts bytes equal")
	if d.hasPort {
		verifAssert(mp.FPort != nil, "decoded FPort present")
		verifAssert(*mp.FPort == d.port, "decoded FPort equal")
	} else {
		verifAssert(mp.FPort == nil, "decoded FPort absent")
	}
	fr, ok := c01Bytes(mp.FRMPayload)
	verifAssert(ok, "decoded FRMPayload is a single byte payload")
	verifAssert(verifBytesEq(fr, d.frm), "decoded FRMPayload bytes equal")
}

func VerifC01_Data(mt, nFOpts, fpMode, nFRM int) {
	d := newSpecData(c03MType(mt), nFOpts, fpMode, nFRM)
	mic := verifNondet4("mic")
	p := d.phy()
	p.MIC = MIC(mic)
	b, err := p.MarshalBinary()
	verifAssert(err == nil, "encoding a spec-valid data frame succeeds")
	want := append(d.msg(), mic[:]...)
	verifAssert(verifBytesEq(b, want), "encoded data frame == spec layout")
	var q PHYPayload
	err = q.UnmarshalBinary(verifCopy(b))
	verifAssert(err == nil, "decoding the encoded data frame succeeds")
	c01CheckData(d, &q, mic)
	verifReach("done")
}

// Text form: base64 (StdEncoding executed as a reference implementation, see DESIGN.md section 4).
func VerifC01_Text(mt, nFOpts, fpMode, nFRM int) {
	d := newSpecData(c03MType(mt), nFOpts, fpMode, nFRM)
	mic := verifNondet4("mic")
	p := d.phy()
	p.MIC = MIC(mic)
	txt, err := p.MarshalText()
	verifAssert(err == nil, "text-encoding a spec-valid data frame succeeds")
	var q PHYPayload
	err = q.UnmarshalText(txt)
	verifAssert(err == nil, "decoding the text form succeeds")
	c01CheckData(d, &q, mic)
	verifReach("done")
}

func VerifC01_JoinRequest() {
	major := verifNondetU8("major") & 3
	joinEUI, devEUI := EUI64(verifNondet8("joinEUI")), EUI64(verifNondet8("devEUI"))
	nonce := DevNonce(verifNondetU16("devNonce"))
	mic := verifNondet4("mic")
	p := &PHYPayload{MHDR: MHDR{MType: JoinRequest, Major: Major(major)}, MIC: MIC(mic),
		MACPayload: &JoinRequestPayload{JoinEUI: joinEUI, DevEUI: devEUI, DevNonce: nonce}}
	b, err := p.MarshalBinary()
	verifAssert(err == nil, "encoding a join-request succeeds")
	want := append(append([]byte{byte(JoinRequest)<<5 | major}, specJoinRequestBytes(joinEUI, devEUI, nonce)...), mic[:]...)
	verifAssert(verifBytesEq(b, want), "encoded join-request == spec layout")
	var q PHYPayload
	err = q.UnmarshalBinary(verifCopy(b))
	verifAssert(err == nil, "decoding the join-request succeeds")
	jr, ok := q.MACPayload.(*JoinRequestPayload)
	verifAssert(ok, "join-request decodes into JoinRequestPayload")
	verifAssert(q.MHDR == p.MHDR, "MHDR equal")
	verifAssert(q.MIC == p.MIC, "MIC equal")
	verifAssert(jr.JoinEUI == joinEUI, "JoinEUI equal")
	verifAssert(jr.DevEUI == devEUI, "DevEUI equal")
	verifAssert(jr.DevNonce == nonce, "DevNonce equal")
	verifReach("done")
}

// kind 0: rejoin type 0/2, kind 1: rejoin type 1.
func VerifC01_Rejoin(kind int) {
	major := verifNondetU8("major") & 3
	devEUI := EUI64(verifNondet8("devEUI"))
	cnt := verifNondetU16("rjCount")
	mic := verifNondet4("mic")
	p := &PHYPayload{MHDR: MHDR{MType: RejoinRequest, Major: Major(major)}, MIC: MIC(mic)}
	var body []byte
	var typ byte
	var netID NetID
	var joinEUI EUI64
	if kind == 0 {
		typ = verifIteU8(verifNondetBool("type2"), 2, 0)
		netID = NetID(verifNondet3("netID"))
		p.MACPayload = &RejoinRequestType02Payload{RejoinType: JoinType(typ), NetID: netID, DevEUI: devEUI, RJCount0: cnt}
		body = specRejoin02Bytes(typ, netID, devEUI, cnt)
	} else {
		typ = 1
		joinEUI = EUI64(verifNondet8("joinEUI"))
		p.MACPayload = &RejoinRequestType1Payload{RejoinType: 1, JoinEUI: joinEUI, DevEUI: devEUI, RJCount1: cnt}
		body = specRejoin1Bytes(joinEUI, devEUI, cnt)
	}
	b, err := p.MarshalBinary()
	verifAssert(err == nil, "encoding a rejoin-request succeeds")
	want := append(append([]byte{byte(RejoinRequest)<<5 | major}, body...), mic[:]...)
	verifAssert(verifBytesEq(b, want), "encoded rejoin-request == spec layout")
	var q PHYPayload
	err = q.UnmarshalBinary(verifCopy(b))
	verifAssert(err == nil, "decoding the rejoin-request succeeds")
	verifAssert(q.MHDR == p.MHDR, "MHDR equal")
	verifAssert(q.MIC == p.MIC, "MIC equal")
	if kind == 0 {
		r, ok := q.MACPayload.(*RejoinRequestType02Payload)
		verifAssert(ok, "rejoin 0/2 decodes into RejoinRequestType02Payload")
		verifAssert(byte(r.RejoinType) == typ, "RejoinType equal")
		verifAssert(r.NetID == netID, "NetID equal")
		verifAssert(r.DevEUI == devEUI, "DevEUI equal")
		verifAssert(r.RJCount0 == cnt, "RJCount0 equal")
	} else {
		r, ok := q.MACPayload.(*RejoinRequestType1Payload)
		verifAssert(ok, "rejoin 1 decodes into RejoinRequestType1Payload")
		verifAssert(r.RejoinType == 1, "RejoinType equal")
		verifAssert(r.JoinEUI == joinEUI, "JoinEUI equal")
		verifAssert(r.DevEUI == devEUI, "DevEUI equal")
		verifAssert(r.RJCount1 == cnt, "RJCount1 equal")
	}
	verifReach("done")
}

func VerifC01_JoinAccept(cf int) {
	major := verifNondetU8("major") & 3
	key := verifNondetKey("key")
	mic := verifNondet4("mic")
	j := newSpecJoinAccept(cf)
	p := &PHYPayload{MHDR: MHDR{MType: JoinAccept, Major: Major(major)}, MIC: MIC(mic), MACPayload: j.payload()}
	plain, err := p.MarshalBinary()
	verifAssert(err == nil, "encoding a spec-valid join-accept succeeds")
	want := append(append([]byte{byte(JoinAccept)<<5 | major}, j.bytes()...), mic[:]...)
	verifAssert(verifBytesEq(plain, want), "encoded join-accept == spec layout")
	err = p.EncryptJoinAcceptPayload(AES128Key(key))
	verifAssert(err == nil, "encrypting the join-accept succeeds")
	b, err := p.MarshalBinary()
	verifAssert(err == nil, "encoding the encrypted join-accept succeeds")
	var q PHYPayload
	err = q.UnmarshalBinary(verifCopy(b))
	verifAssert(err == nil, "decoding the encrypted join-accept succeeds")
	err = q.DecryptJoinAcceptPayload(AES128Key(key))
	verifAssert(err == nil, "decrypting the join-accept succeeds")
	verifAssert(q.MHDR == MHDR{MType: JoinAccept, Major: Major(major)}, "MHDR equal")
	verifAssert(q.MIC == MIC(mic), "MIC equal")
	ja, ok := q.MACPayload.(*JoinAcceptPayload)
	verifAssert(ok, "join-accept decodes into JoinAcceptPayload")
	verifAssert(uint32(ja.JoinNonce) == j.joinNonce, "JoinNonce equal")
	verifAssert(ja.HomeNetID == j.netID, "HomeNetID equal")
	verifAssert(ja.DevAddr == j.addr, "DevAddr equal")
	verifAssert(ja.DLSettings.OptNeg == j.optNeg, "OptNeg equal")
	verifAssert(ja.DLSettings.RX1DROffset == j.rx1DROffset, "RX1DROffset equal")
	verifAssert(ja.DLSettings.RX2DataRate == j.rx2DR, "RX2DataRate equal")
	verifAssert(ja.RXDelay == j.rxDelay, "RXDelay equal")
	switch j.cfKind {
	case 0:
		verifAssert(ja.CFList == nil, "CFList absent")
	case 1:
		verifAssert(ja.CFList != nil, "CFList present")
		verifAssert(ja.CFList.CFListType == CFListChannel, "CFList type equal")
		cp, ok := ja.CFList.Payload.(*CFListChannelPayload)
		verifAssert(ok, "CFList payload is a channel list")
		verifAssert(cp.Channels == j.freqs, "CFList frequencies equal")
	case 2:
		verifAssert(ja.CFList != nil, "CFList present")
		verifAssert(ja.CFList.CFListType == CFListChannelMask, "CFList type equal")
		mp, ok := ja.CFList.Payload.(*CFListChannelMaskPayload)
		verifAssert(ok, "CFList payload is a channel-mask list")
		verifAssert(len(mp.ChannelMasks) <= len(j.masks), "no more masks decoded than encoded")
		for i, m := range j.masks {
			if i < len(mp.ChannelMasks) {
				verifAssert(mp.ChannelMasks[i] == specChMask(m), "channel mask equal")
			} else {
				// the wire format cannot distinguish trailing all-zero masks from padding
				verifAssert(m == 0, "only all-zero trailing masks are dropped")
			}
		}
	}
	verifReach("done")
}

func VerifC01_Proprietary(n int) {
	major := verifNondetU8("major") & 3
	mic := verifNondet4("mic")
	body := verifNondetBytes("body", n)
	p := &PHYPayload{MHDR: MHDR{MType: Proprietary, Major: Major(major)}, MIC: MIC(mic), MACPayload: &DataPayload{Bytes: verifCopy(body)}}
	b, err := p.MarshalBinary()
	verifAssert(err == nil, "encoding a proprietary frame succeeds")
	want := append(append([]byte{byte(Proprietary)<<5 | major}, body...), mic[:]...)
	verifAssert(verifBytesEq(b, want), "encoded proprietary frame == MHDR | bytes | MIC")
	var q PHYPayload
	err = q.UnmarshalBinary(verifCopy(b))
	verifAssert(err == nil, "decoding the proprietary frame succeeds")
	dp, ok := q.MACPayload.(*DataPayload)
	verifAssert(ok, "proprietary frame decodes into DataPayload")
	verifAssert(verifBytesEq(dp.Bytes, body), "proprietary bytes equal")
	verifAssert(q.MHDR == p.MHDR, "MHDR equal")
	verifAssert(q.MIC == p.MIC, "MIC equal")
	verifReach("done")
}
