package lorawan

// Spec models for the LoRaWAN payload encryption (LoRaWAN 1.0.x/1.1 section 4.3.3 / 4.4),
// written from the specification text; they call only the spec-side primitive verifAESEnc.

// specABlock builds the A_i block: 0x01 | 4 x 0x00 | Dir | DevAddr (LE) | FCnt (LE, 32 bit) | 0x00 | i.
func specABlock(b4 byte, dir byte, addr DevAddr, fcnt uint32, i byte) [16]byte {
	var a [16]byte
	a[0] = 0x01
	a[4] = b4
	a[5] = dir
	a[6] = addr[3]
	a[7] = addr[2]
	a[8] = addr[1]
	a[9] = addr[0]
	a[10] = byte(fcnt)
	a[11] = byte(fcnt >> 8)
	a[12] = byte(fcnt >> 16)
	a[13] = byte(fcnt >> 24)
	a[15] = i
	return a
}

func specDir(uplink bool) byte { return verifIteU8(uplink, 0, 1) }

// specFRMCrypt: pt xor (S_1 | S_2 | ...), S_i = AES(K, A_i), truncated to len(pt).
func specFRMCrypt(key [16]byte, uplink bool, addr DevAddr, fcnt uint32, pt []byte) []byte {
	out := make([]byte, len(pt))
	for i := 0; i*16 < len(pt); i++ {
		s := verifAESEnc(key[:], specABlock(0, specDir(uplink), addr, fcnt, byte(i+1)))
		for j := 0; j < 16 && i*16+j < len(pt); j++ {
			out[i*16+j] = pt[i*16+j] ^ s[j]
		}
	}
	return out
}

// specFOptsCrypt (1.1 section 4.3.1.6): single block, A[4] = 0x01 (FCntUp / NFCntDown) or 0x02 (AFCntDown), A[15] = 1.
func specFOptsCrypt(key [16]byte, aFCntDown, uplink bool, addr DevAddr, fcnt uint32, pt []byte) []byte {
	s := verifAESEnc(key[:], specABlock(verifIteU8(aFCntDown, 2, 1), specDir(uplink), addr, fcnt, 1))
	out := make([]byte, len(pt))
	for j := range pt {
		out[j] = pt[j] ^ s[j]
	}
	return out
}

// specCarriedMIC: an arbitrary 4-byte MIC carried by a received frame, expressed relative to the spec value
// (want xor an arbitrary difference - every 4-byte value is reached). Stated this way a counterexample keeps its
// meaning in the native replay, where CMAC is the real function and not the solver's uninterpreted one
// (round 6: a validator that accepts some wrong MICs needs "carried = spec xor d" with a particular d).
func specCarriedMIC(want [4]byte) [4]byte {
	d := verifNondet4("carriedMICxorSpec")
	var c [4]byte
	for i := range c {
		c[i] = want[i] ^ d[i]
	}
	return c
}
