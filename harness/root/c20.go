package lorawan

// C20 (EIRP part): TXParamSetup EIRP coding.

var specEIRP = [16]float32{8, 10, 12, 13, 14, 16, 18, 20, 21, 24, 26, 27, 29, 30, 33, 36}

func VerifC20_EIRPIndex() {
	p := verifNondetF32("eirp")
	verifAssume(p == p) // not NaN
	verifAssume(p >= 8)
	verifAssume(p <= 3.0e38)
	i := GetTXParamSetupEIRPIndex(p)
	verifAssert(i <= 15, "index within the table")
	for k := 0; k < 16; k++ {
		if int(i) == k {
			verifAssert(specEIRP[k] <= p, "the chosen table entry does not exceed the requested power")
			if k < 15 {
				verifAssert(specEIRP[k+1] > p, "the chosen entry is the largest one not exceeding the requested power")
			}
			v, err := GetTXParamSetupEIRP(i)
			verifAssert(err == nil, "the chosen index decodes")
			verifAssert(v == specEIRP[k], "the chosen index decodes to that table entry")
		}
	}
	verifReach("done")
}

func VerifC20_EIRPDecode() {
	i := verifNondetU8("index")
	v, err := GetTXParamSetupEIRP(i)
	verifAssert((err == nil) == (i <= 15), "exactly the 16 coded values decode")
	if err == nil {
		for k := 0; k < 16; k++ {
			verifAssert(verifImplies(int(i) == k, v == specEIRP[k]), "coded value k decodes to the table entry (8, 10, 12, 13, 14, 16, 18, 20, 21, 24, 26, 27, 29, 30, 33, 36 dBm)")
		}
		verifAssert(GetTXParamSetupEIRPIndex(v) == i, "decoding then encoding returns the same coded value")
	}
	verifReach("done")
}
