package backend

import (
	"time"

	"github.com/brocaar/lorawan"
)

// C17: backend-interface JSON types and key envelopes round-trip without loss.
// encoding/json.Marshal(float64) / strconv.ParseFloat are replaced by their documented round-trip contract
// ("parsing the shortest decimal representation of x yields x", DESIGN.md section 4); what is decided here are
// the numeric kernels around them, the hex text form and the RFC 3394 key envelope.

// Frequency: every integer Hz value in [lo*2^16, (lo+1)*2^16) (one window per call; lo < 0: the whole range 0..2^32).
func VerifC17_Frequency(lo int) {
	var hz int
	if lo < 0 {
		hz = int(verifNondetU32("hz"))
	} else {
		hz = lo<<16 | int(verifNondetU16("hzLow"))
	}
	b, err := Frequency(hz).MarshalJSON()
	verifAssert(err == nil, "Frequency.MarshalJSON succeeds")
	var back Frequency
	err = back.UnmarshalJSON(b)
	verifAssert(err == nil, "Frequency.UnmarshalJSON succeeds")
	verifAssertKnown("C17-frequency-truncation", true, int(back) == hz, "Frequency survives the MHz JSON form for every integer Hz value")
	verifReach("done")
}

// Percentage: every integer percent in [0, max].
func VerifC17_Percentage(max int) {
	p := int(verifNondetU32("percent"))
	verifAssume(p <= max)
	b, err := Percentage(p).MarshalJSON()
	verifAssert(err == nil, "Percentage.MarshalJSON succeeds")
	var back Percentage
	err = back.UnmarshalJSON(b)
	verifAssert(err == nil, "Percentage.UnmarshalJSON succeeds")
	verifAssertKnown("C17-percentage-truncation", true, int(back) == p, "Percentage survives the fraction JSON form for every integer percent")
	verifReach("done")
}

// HEXBytes text form, with and without 0x prefix.
func VerifC17_HEXBytes(n, prefix int) {
	v := HEXBytes(verifNondetBytes("v", n))
	t, err := v.MarshalText()
	verifAssert(err == nil, "HEXBytes.MarshalText succeeds")
	verifAssert(len(t) == 2*n, "HEXBytes text is two hex digits per byte")
	txt := t
	if prefix == 1 {
		txt = append([]byte("0x"), t...)
	}
	var w HEXBytes
	err = w.UnmarshalText(txt)
	verifAssert(err == nil, "HEXBytes.UnmarshalText succeeds")
	verifAssert(verifBytesEq(w, v), "HEXBytes survives its text form")
	verifReach("done")
}

// Key envelope with a KEK of kekLen bytes (16/24/32): unwrap(wrap(key)) == key, ciphertext == RFC 3394 wrap.
func VerifC17_Envelope(kekLen int) {
	kek := verifNondetBytes("kek", kekLen)
	key := lorawan.AES128Key(verifNondetKey("key"))
	env, err := NewKeyEnvelope("label", kek, key)
	verifAssert(err == nil, "NewKeyEnvelope succeeds")
	verifAssert(env.KEKLabel == "label", "the envelope names the KEK label")
	verifAssert(len(env.AESKey) == 24, "a wrapped 128-bit key is 24 bytes")
	verifAssert(verifBytesEq(env.AESKey, specWrap(kek, key[:])), "the envelope carries the RFC 3394 wrapping of the key")
	back, err := env.Unwrap(kek)
	verifAssert(err == nil, "unwrapping with the same KEK succeeds")
	verifAssert(back == key, "a wrapped key unwraps to the same key")
	verifReach("done")
}

// Without KEK label (or without KEK) the key is carried in clear.
func VerifC17_EnvelopeClear(mode int) {
	key := lorawan.AES128Key(verifNondetKey("key"))
	kek := verifNondetBytes("kek", 16)
	var env *KeyEnvelope
	var err error
	if mode == 0 {
		env, err = NewKeyEnvelope("", kek, key)
	} else {
		env, err = NewKeyEnvelope("label", nil, key)
	}
	verifAssert(err == nil, "NewKeyEnvelope succeeds")
	verifAssert(env.KEKLabel == "", "no KEK label in the envelope")
	verifAssert(verifBytesEq(env.AESKey, key[:]), "without a KEK label the key is carried in clear")
	verifReach("done")
}

// specWrap / specUnwrap: RFC 3394 section 2.2 (index-based description), over the spec-side AES primitive.
func specWrap(kek, p []byte) []byte {
	return specWrapIV(kek, p, []byte{0xA6, 0xA6, 0xA6, 0xA6, 0xA6, 0xA6, 0xA6, 0xA6})
}

// specWrapIV: the same wrapping with an arbitrary initial value (RFC 3394 2.2.3: the IV is what the unwrapper checks).
func specWrapIV(kek, p, iv []byte) []byte {
	n := len(p) / 8
	a := verifCopy(iv)
	r := make([][]byte, n)
	for i := range r {
		r[i] = verifCopy(p[8*i : 8*i+8])
	}
	for j := 0; j <= 5; j++ {
		for i := 1; i <= n; i++ {
			var in [16]byte
			copy(in[:8], a)
			copy(in[8:], r[i-1])
			b := verifAESEnc(kek, in)
			t := uint64(n*j + i)
			for k := 0; k < 8; k++ {
				a[k] = b[k] ^ byte(t>>uint(8*(7-k)))
			}
			r[i-1] = verifCopy(b[8:])
		}
	}
	out := verifCopy(a)
	for i := range r {
		out = append(out, r[i]...)
	}
	return out
}

func specUnwrap(kek, c []byte) (p []byte, ok bool) {
	n := len(c)/8 - 1
	a := verifCopy(c[:8])
	r := make([][]byte, n)
	for i := range r {
		r[i] = verifCopy(c[8*(i+1) : 8*(i+2)])
	}
	for j := 5; j >= 0; j-- {
		for i := n; i >= 1; i-- {
			t := uint64(n*j + i)
			var in [16]byte
			for k := 0; k < 8; k++ {
				in[k] = a[k] ^ byte(t>>uint(8*(7-k)))
			}
			copy(in[8:], r[i-1])
			b := verifAESDec(kek, in)
			a = verifCopy(b[:8])
			r[i-1] = verifCopy(b[8:])
		}
	}
	ok = true
	for k := 0; k < 8; k++ {
		ok = verifAnd(ok, a[k] == 0xA6)
	}
	for i := range r {
		p = append(p, r[i]...)
	}
	return p, ok
}

// Unwrapping arbitrary envelope bytes succeeds exactly when the RFC 3394 integrity check passes.
func VerifC17_UnwrapIff(kekLen int) {
	kek := verifNondetBytes("kek", kekLen)
	c := verifNondetBytes("wrapped", 24)
	env := KeyEnvelope{KEKLabel: "label", AESKey: HEXBytes(verifCopy(c))}
	key, err := env.Unwrap(kek)
	want, ok := specUnwrap(kek, c)
	verifAssert((err == nil) == ok, "unwrapping succeeds exactly when the recovered integrity value is A6A6A6A6A6A6A6A6")
	if err == nil {
		verifAssert(verifBytesEq(key[:], want), "the unwrapped key is the RFC 3394 plaintext")
	}
	verifReach("done")
}

// The integrity check, stated relative to the primitive: the envelope is the RFC 3394 wrapping of an arbitrary key
// under an initial value A6..A6 xor d (d: 8 symbolic bytes). Unwrap must succeed exactly for d = 0 and then return the
// key. Unlike UnwrapIff (free ciphertext bytes) a counterexample - an unwrapper that overlooks some difference d - keeps
// its meaning in the native replay, where AES is the real function (round 6, lesson 6 of section 12).
func VerifC17_UnwrapIffRel(kekLen int) {
	kek := verifNondetBytes("kek", kekLen)
	key := verifNondetBytes("key", 16)
	d := verifNondetBytes("ivDifference", 8)
	iv := make([]byte, 8)
	same := true
	for k := range iv {
		iv[k] = 0xA6 ^ d[k]
		same = verifAnd(same, d[k] == 0)
	}
	c := specWrapIV(kek, key, iv)
	env := KeyEnvelope{KEKLabel: "label", AESKey: HEXBytes(verifCopy(c))}
	got, err := env.Unwrap(kek)
	verifAssert((err == nil) == same, "an envelope wrapped under the initial value A6..A6 xor d unwraps exactly when d = 0")
	if err == nil {
		verifAssert(verifBytesEq(got[:], key), "the unwrapped key is the wrapped key")
	}
	verifReach("done")
}

// KeyEnvelope.Unwrap on an envelope of any length: an error or a key, never a panic (also part of C09).
func VerifC17_UnwrapAnyLength(n int) {
	kek := verifNondetBytes("kek", 16)
	env := KeyEnvelope{KEKLabel: "label", AESKey: HEXBytes(verifNondetBytes("wrapped", n))}
	_, err := env.Unwrap(kek)
	if n < 16 || n%8 != 0 {
		verifAssert(err != nil, "an envelope whose length is not 8 + n x 8 bytes is refused")
	}
	verifReach("done")
}

// HEXBytes.UnmarshalText on arbitrary text: error or value, never a panic (C09).
func VerifC17_HEXAnyText(n int) {
	text := verifNondetBytes("text", n)
	orig := verifCopy(text)
	var w HEXBytes
	w.UnmarshalText(text)
	verifAssert(verifBytesEq(text, orig), "HEXBytes.UnmarshalText does not modify its input")
	verifReach("done")
}

// ISO8601Time: text round trip to one second, for every instant (1970-01-02 .. 2106) in every zone (whole minutes).
// zoneMode 0: UTC, 1: arbitrary offset.
func VerifC17_ISO8601(zoneMode int) {
	sec := verifNondetU32("unixSeconds")
	nsec := verifNondetU32("nanoseconds") % 1000000000
	verifAssume(sec >= 86400)
	verifAssume(sec < 1<<32-86400-1)
	off := 0
	if zoneMode == 1 {
		off = int(verifNondetI16("zoneOffsetMinutes")) * 60
		verifAssume(off >= -14*3600)
		verifAssume(off <= 14*3600)
	}
	t := verifTimeWithZone(verifTimeFromUnixNano(int64(uint64(sec))*1000000000+int64(uint64(nsec))), off)
	txt, err := ISO8601Time(t).MarshalText()
	verifAssert(err == nil, "ISO8601Time.MarshalText succeeds")
	var back ISO8601Time
	err = back.UnmarshalText(txt)
	verifAssert(err == nil, "ISO8601Time.UnmarshalText accepts what MarshalText produced")
	verifAssert(time.Time(back).Unix() == int64(uint64(sec)), "ISO8601Time survives its text form to one second (same instant, whatever the zone)")
	// a second encode gives the same instant again
	txt2, err := back.MarshalText()
	verifAssert(err == nil, "re-encoding succeeds")
	var back2 ISO8601Time
	verifAssert(back2.UnmarshalText(txt2) == nil, "re-decoding succeeds")
	verifAssert(time.Time(back2).Unix() == int64(uint64(sec)), "ISO8601Time: decode(encode(decode(encode(t)))) is the same instant")
	verifReach("done")
}
