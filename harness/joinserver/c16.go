package joinserver

import (
	"github.com/brocaar/lorawan"
	"github.com/brocaar/lorawan/backend"
)

// C16: join-server answers are usable by a spec-conformant device and network server.
// Decided at handleJoinRequestWrapper / handleRejoinRequestWrapper (the layer beneath JSON / HTTP) against a
// device model written from LoRaWAN 1.0.x / 1.1 section 6 (join procedure, key derivation, join-accept).

func c16Rev8(e lorawan.EUI64) []byte { return []byte{e[7], e[6], e[5], e[4], e[3], e[2], e[1], e[0]} }

func c16Block(typ byte, rest ...[]byte) [16]byte {
	var b [16]byte
	b[0] = typ
	i := 1
	for _, r := range rest {
		for _, x := range r {
			b[i] = x
			i++
		}
	}
	return b
}

type c16Device struct {
	nwkKey, appKey [16]byte
	devEUI, joinEUI lorawan.EUI64
	netID          lorawan.NetID
}

type c16Request struct {
	devAddr   lorawan.DevAddr
	optNeg    bool
	rx1Off    uint8
	rx2DR     uint8
	rxDelay   uint8
	cflist    []byte
	joinNonce uint32
	txID      uint32
	asLabel   string
	asKEK     []byte
	nsLabel   string
	nsKEK     []byte
}

func c16Draw(cf, kekAS, kekNS int) (c16Device, c16Request) {
	d := c16Device{nwkKey: verifNondetKey("nwkKey"), appKey: verifNondetKey("appKey"), devEUI: lorawan.EUI64(verifNondet8("devEUI")), joinEUI: lorawan.EUI64(verifNondet8("joinEUI")), netID: lorawan.NetID(verifNondet3("netID"))}
	r := c16Request{devAddr: lorawan.DevAddr(verifNondet4("devAddr")), optNeg: verifNondetBool("optNeg"), rx1Off: verifNondetU8("rx1DROffset") & 7, rx2DR: verifNondetU8("rx2DR") & 15,
		rxDelay: verifNondetU8("rxDelay") & 15, joinNonce: verifNondetU32("joinNonce") & 0xffffff, txID: verifNondetU32("transactionID")}
	if cf == 1 {
		// a channel-list CFList (type 0) with arbitrary frequencies
		r.cflist = verifNondetBytes("cflist", 16)
		verifAssume(r.cflist[15] == 0)
	}
	if kekAS == 1 {
		r.asLabel, r.asKEK = "as-kek", verifNondetBytes("asKEK", 16)
	}
	if kekNS == 1 {
		r.nsLabel, r.nsKEK = "ns-kek", verifNondetBytes("nsKEK", 16)
	}
	return d, r
}

func c16First4(c [16]byte) [4]byte { return [4]byte{c[0], c[1], c[2], c[3]} }

// device side: decrypt the join-accept (AES encrypt operation), returns the plaintext body and MIC
func c16Decrypt(key [16]byte, phy []byte) (body []byte, mic []byte) {
	ct := phy[1:]
	pt := make([]byte, 0, len(ct))
	for i := 0; i+16 <= len(ct); i += 16 {
		var blk [16]byte
		copy(blk[:], ct[i:i+16])
		p := verifAESEnc(key[:], blk)
		pt = append(pt, p[:]...)
	}
	return pt[:len(pt)-4], pt[len(pt)-4:]
}

func c16CheckAccept(d c16Device, r c16Request, body []byte) {
	verifAssert(len(body) == 12+len(r.cflist), "join-accept body length (12 bytes + optional 16 byte CFList)")
	jn := uint32(body[0]) | uint32(body[1])<<8 | uint32(body[2])<<16
	verifAssert(jn == r.joinNonce, "join-accept carries the configured JoinNonce")
	verifAssert(body[3] == d.netID[2] && body[4] == d.netID[1] && body[5] == d.netID[0], "join-accept carries the NetID of the requesting network server")
	verifAssert(body[6] == r.devAddr[3] && body[7] == r.devAddr[2] && body[8] == r.devAddr[1] && body[9] == r.devAddr[0], "join-accept echoes the requested DevAddr")
	dl := verifIteU8(r.optNeg, 0x80, 0) | r.rx1Off<<4 | r.rx2DR
	verifAssert(body[10] == dl, "join-accept echoes the requested DLSettings")
	verifAssert(body[11] == r.rxDelay, "join-accept echoes the requested RxDelay")
	for i := range r.cflist {
		verifAssert(body[12+i] == r.cflist[i], "join-accept echoes the requested CFList")
	}
}

func c16Unwrap(env *backend.KeyEnvelope, label string, kek []byte, what string) ([16]byte, bool) {
	var k [16]byte
	if env == nil {
		return k, false
	}
	if label == "" {
		verifAssert(env.KEKLabel == "", what+": no KEK label when none is configured")
		verifAssert(len(env.AESKey) == 16, what+": key carried in clear is 16 bytes")
		copy(k[:], env.AESKey)
		return k, true
	}
	verifAssert(env.KEKLabel == label, what+": envelope names the configured KEK label")
	key, err := env.Unwrap(kek)
	verifAssert(err == nil, what+": envelope unwraps with the configured KEK")
	return [16]byte(key), true
}

func c16KeyEq(env *backend.KeyEnvelope, label string, kek []byte, want [16]byte, what string, knownID string, region bool) {
	got, ok := c16Unwrap(env, label, kek, what)
	verifAssert(ok, what+": present in the answer")
	if ok {
		verifAssertKnown(knownID, region, got == want, what+": equals the key the device derives")
	}
}

func VerifC16_Join(cf, kekAS, kekNS int) {
	d, r := c16Draw(cf, kekAS, kekNS)
	devNonce := verifNondetU16("devNonce")
	// the device builds and signs the join-request
	body := append(append(c16Rev8(d.joinEUI), c16Rev8(d.devEUI)...), byte(devNonce), byte(devNonce>>8))
	msg := append([]byte{0x00}, body...)
	mic := c16First4(verifCMAC(d.nwkKey[:], msg))
	badMIC := verifNondetBool("corruptMIC")
	carried := mic
	if badMIC {
		// a wrong MIC is stated relative to the right one (right xor d, d != 0: every wrong value), so that a
		// counterexample keeps its meaning in the native replay where CMAC is the real function
		d4 := verifNondet4("carriedMICxorSpec")
		verifAssume(d4 != [4]byte{})
		for i := range carried {
			carried[i] = mic[i] ^ d4[i]
		}
	}
	phy := append(msg, carried[:]...)
	req := backend.JoinReqPayload{
		BasePayload: backend.BasePayload{ProtocolVersion: backend.ProtocolVersion1_0, SenderID: d.netID.String(), ReceiverID: d.joinEUI.String(), TransactionID: r.txID, MessageType: backend.JoinReq},
		MACVersion:  "1.0.3", PHYPayload: backend.HEXBytes(phy), DevEUI: d.devEUI, DevAddr: r.devAddr,
		DLSettings: lorawan.DLSettings{OptNeg: r.optNeg, RX1DROffset: r.rx1Off, RX2DataRate: r.rx2DR}, RxDelay: int(r.rxDelay), CFList: backend.HEXBytes(r.cflist),
	}
	dk := DeviceKeys{DevEUI: d.devEUI, NwkKey: lorawan.AES128Key(d.nwkKey), AppKey: lorawan.AES128Key(d.appKey), JoinNonce: int(r.joinNonce)}
	ans := handleJoinRequestWrapper(req, dk, r.asLabel, r.asKEK, r.nsLabel, r.nsKEK)

	verifAssert(ans.SenderID == req.ReceiverID, "the answer's sender is the request's receiver")
	verifAssert(ans.ReceiverID == req.SenderID, "the answer's receiver is the request's sender")
	verifAssert(ans.TransactionID == r.txID, "the answer mirrors the transaction id")
	verifAssert(ans.MessageType == backend.JoinAns, "the answer is a JoinAns")
	if badMIC {
		verifAssert(ans.Result.ResultCode == backend.MICFailed, "a join-request with a wrong MIC yields MICFailed")
		verifReach("mic-failed")
		return
	}
	verifAssert(ans.Result.ResultCode == backend.Success, "a join-request with a correct MIC for a known device yields Success")
	if ans.Result.ResultCode != backend.Success {
		verifReach("not-success")
		return
	}
	// the device decrypts (AES encrypt with NwkKey) and checks the join-accept
	acc := []byte(ans.PHYPayload)
	verifAssert(len(acc) == 1+12+len(r.cflist)+4, "join-accept length")
	verifAssert(acc[0] == 0x20, "join-accept MHDR")
	jaBody, jaMIC := c16Decrypt(d.nwkKey, acc)
	c16CheckAccept(d, r, jaBody)
	jn := []byte{byte(r.joinNonce), byte(r.joinNonce >> 8), byte(r.joinNonce >> 16)}
	dn := []byte{byte(devNonce), byte(devNonce >> 8)}
	nid := []byte{d.netID[2], d.netID[1], d.netID[0]}
	micMsg := append([]byte{0x20}, jaBody...)
	var wantMIC [4]byte
	var fNwk, sNwk, nwkEnc, appS [16]byte
	if r.optNeg {
		jsInt := verifAESEnc(d.nwkKey[:], c16Block(0x06, c16Rev8(d.devEUI)))
		pre := append(append([]byte{0xff}, c16Rev8(d.joinEUI)...), dn...)
		wantMIC = c16First4(verifCMAC(jsInt[:], append(pre, micMsg...)))
		fNwk = verifAESEnc(d.nwkKey[:], c16Block(0x01, jn, c16Rev8(d.joinEUI), dn))
		sNwk = verifAESEnc(d.nwkKey[:], c16Block(0x03, jn, c16Rev8(d.joinEUI), dn))
		nwkEnc = verifAESEnc(d.nwkKey[:], c16Block(0x04, jn, c16Rev8(d.joinEUI), dn))
		appS = verifAESEnc(d.appKey[:], c16Block(0x02, jn, c16Rev8(d.joinEUI), dn))
	} else {
		wantMIC = c16First4(verifCMAC(d.nwkKey[:], micMsg))
		fNwk = verifAESEnc(d.nwkKey[:], c16Block(0x01, jn, nid, dn))
		appS = verifAESEnc(d.nwkKey[:], c16Block(0x02, jn, nid, dn))
	}
	verifAssert(jaMIC[0] == wantMIC[0] && jaMIC[1] == wantMIC[1] && jaMIC[2] == wantMIC[2] && jaMIC[3] == wantMIC[3], "the device accepts the join-accept MIC (1.0 form, or 1.1 form with JSIntKey when OptNeg is set)")
	c16KeyEq(ans.AppSKey, r.asLabel, r.asKEK, appS, "AppSKey", "", false)
	if r.optNeg {
		c16KeyEq(ans.FNwkSIntKey, r.nsLabel, r.nsKEK, fNwk, "FNwkSIntKey", "", false)
		c16KeyEq(ans.SNwkSIntKey, r.nsLabel, r.nsKEK, sNwk, "SNwkSIntKey", "", false)
		c16KeyEq(ans.NwkSEncKey, r.nsLabel, r.nsKEK, nwkEnc, "NwkSEncKey", "", false)
	} else {
		c16KeyEq(ans.NwkSKey, r.nsLabel, r.nsKEK, fNwk, "NwkSKey", "", false)
	}
	verifNoGlobalWritesExcept("") // C10: no hidden package-level state is written
	verifReach("success")
}

// typ: 0, 1 or 2 (rejoin-request type). Rejoin is a LoRaWAN 1.1 procedure: the answer sets OptNeg and the device
// derives 1.1 session keys; the join-accept is encrypted with JSEncKey and signed with JSIntKey.
func VerifC16_Rejoin(typ, cf, kekAS, kekNS int) {
	d, r := c16Draw(cf, kekAS, kekNS)
	r.optNeg = true
	cnt := verifNondetU16("rjCount")
	var body []byte
	if typ == 1 {
		body = append(append([]byte{1}, c16Rev8(d.joinEUI)...), c16Rev8(d.devEUI)...)
	} else {
		body = append([]byte{byte(typ), d.netID[2], d.netID[1], d.netID[0]}, c16Rev8(d.devEUI)...)
	}
	body = append(body, byte(cnt), byte(cnt>>8))
	msg := append([]byte{0xc0}, body...)
	mic := verifNondet4("rejoinMIC") // validated by the network server (SNwkSIntKey / JSIntKey), not by the join-server
	phy := append(msg, mic[:]...)
	req := backend.RejoinReqPayload{
		BasePayload: backend.BasePayload{ProtocolVersion: backend.ProtocolVersion1_0, SenderID: d.netID.String(), ReceiverID: d.joinEUI.String(), TransactionID: r.txID, MessageType: backend.RejoinReq},
		MACVersion:  "1.1.0", PHYPayload: backend.HEXBytes(phy), DevEUI: d.devEUI, DevAddr: r.devAddr,
		DLSettings: lorawan.DLSettings{OptNeg: true, RX1DROffset: r.rx1Off, RX2DataRate: r.rx2DR}, RxDelay: int(r.rxDelay), CFList: backend.HEXBytes(r.cflist),
	}
	dk := DeviceKeys{DevEUI: d.devEUI, NwkKey: lorawan.AES128Key(d.nwkKey), AppKey: lorawan.AES128Key(d.appKey), JoinNonce: int(r.joinNonce)}
	ans := handleRejoinRequestWrapper(req, dk, r.asLabel, r.asKEK, r.nsLabel, r.nsKEK)
	verifAssert(ans.SenderID == req.ReceiverID, "the answer's sender is the request's receiver")
	verifAssert(ans.ReceiverID == req.SenderID, "the answer's receiver is the request's sender")
	verifAssert(ans.TransactionID == r.txID, "the answer mirrors the transaction id")
	verifAssert(ans.MessageType == backend.RejoinAns, "the answer is a RejoinAns")
	verifAssert(ans.Result.ResultCode == backend.Success, "a rejoin-request of a known device yields Success")
	if ans.Result.ResultCode != backend.Success {
		verifReach("not-success")
		return
	}
	acc := []byte(ans.PHYPayload)
	verifAssert(len(acc) == 1+12+len(r.cflist)+4, "join-accept length")
	verifAssert(acc[0] == 0x20, "join-accept MHDR")
	jsEnc := verifAESEnc(d.nwkKey[:], c16Block(0x05, c16Rev8(d.devEUI)))
	jsInt := verifAESEnc(d.nwkKey[:], c16Block(0x06, c16Rev8(d.devEUI)))
	jaBody, jaMIC := c16Decrypt(jsEnc, acc)
	c16CheckAccept(d, r, jaBody)
	jn := []byte{byte(r.joinNonce), byte(r.joinNonce >> 8), byte(r.joinNonce >> 16)}
	dn := []byte{byte(cnt), byte(cnt >> 8)}
	pre := append(append([]byte{byte(typ)}, c16Rev8(d.joinEUI)...), dn...)
	wantMIC := c16First4(verifCMAC(jsInt[:], append(pre, append([]byte{0x20}, jaBody...)...)))
	verifAssert(jaMIC[0] == wantMIC[0] && jaMIC[1] == wantMIC[1] && jaMIC[2] == wantMIC[2] && jaMIC[3] == wantMIC[3], "the device accepts the join-accept MIC (JSIntKey, rejoin type | JoinEUI | RJcount prefix)")
	fNwk := verifAESEnc(d.nwkKey[:], c16Block(0x01, jn, c16Rev8(d.joinEUI), dn))
	sNwk := verifAESEnc(d.nwkKey[:], c16Block(0x03, jn, c16Rev8(d.joinEUI), dn))
	nwkEnc := verifAESEnc(d.nwkKey[:], c16Block(0x04, jn, c16Rev8(d.joinEUI), dn))
	appS := verifAESEnc(d.appKey[:], c16Block(0x02, jn, c16Rev8(d.joinEUI), dn))
	const id = "C16-rejoin-10style-keys"
	c16KeyEq(ans.AppSKey, r.asLabel, r.asKEK, appS, "AppSKey", id, true)
	c16KeyEq(ans.FNwkSIntKey, r.nsLabel, r.nsKEK, fNwk, "FNwkSIntKey", id, true)
	c16KeyEq(ans.SNwkSIntKey, r.nsLabel, r.nsKEK, sNwk, "SNwkSIntKey", id, true)
	c16KeyEq(ans.NwkSEncKey, r.nsLabel, r.nsKEK, nwkEnc, "NwkSEncKey", id, true)
	verifNoGlobalWritesExcept("") // C10: no hidden package-level state is written
	verifReach("success")
}
