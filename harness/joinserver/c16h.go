package joinserver

import (
	"encoding/json"
	"io"
	"net/http"

	"github.com/brocaar/lorawan"
	"github.com/brocaar/lorawan/backend"
)

// C16 at the handler layer (ServeHTTP): "every answer mirrors sender, receiver and transaction id; concurrent
// requests do not influence one another".  JSON is modelled by its contract (harness/rt: json hooks): decoding the
// posted request assigns exactly the fields its JSON text contains (an omitempty field that is empty stays as the
// target had it), the answer handed to json.Marshal is captured.  Concurrency is explored at the handler's
// call-backs: request B is served from inside request A's device-key look-up (one interleaving of two goroutines
// at a point where the handler has handed control away).  Natively the same harness runs with real JSON.

type c16Body struct {
	b   []byte
	off int
}

func (r *c16Body) Read(p []byte) (int, error) {
	if r.off >= len(r.b) {
		return 0, io.EOF
	}
	n := copy(p, r.b[r.off:])
	r.off += n
	return n, nil
}
func (r *c16Body) Close() error       { return nil }
func (r *c16Body) verifBytes() []byte { return r.b }

type c16Writer struct {
	code int
	buf  []byte
	hdr  http.Header
}

func (w *c16Writer) Header() http.Header {
	if w.hdr == nil {
		w.hdr = http.Header{}
	}
	return w.hdr
}
func (w *c16Writer) Write(b []byte) (int, error) { w.buf = append(w.buf, b...); return len(b), nil }
func (w *c16Writer) WriteHeader(code int)        { w.code = code }

// the answer in a common shape
type c16Ans struct {
	set                bool
	sender, receiver   string
	tx                 uint32
	mt                 backend.MessageType
	code               backend.ResultCode
	phy                []byte
	keys               [5]*backend.KeyEnvelope
}

var c16CurReq []interface{} // stack of requests being decoded (symbolic run)
var c16LastAns c16Ans

func c16FromJoinAns(a backend.JoinAnsPayload) c16Ans {
	return c16Ans{true, a.SenderID, a.ReceiverID, a.TransactionID, a.MessageType, a.Result.ResultCode, []byte(a.PHYPayload),
		[5]*backend.KeyEnvelope{a.SNwkSIntKey, a.FNwkSIntKey, a.NwkSEncKey, a.NwkSKey, a.AppSKey}}
}

func c16FromRejoinAns(a backend.RejoinAnsPayload) c16Ans {
	return c16Ans{true, a.SenderID, a.ReceiverID, a.TransactionID, a.MessageType, a.Result.ResultCode, []byte(a.PHYPayload),
		[5]*backend.KeyEnvelope{a.SNwkSIntKey, a.FNwkSIntKey, a.NwkSEncKey, a.NwkSKey, a.AppSKey}}
}

func c16AssignBase(dst *backend.BasePayload, src backend.BasePayload) {
	dst.ProtocolVersion = src.ProtocolVersion
	dst.SenderID = src.SenderID
	dst.ReceiverID = src.ReceiverID
	dst.TransactionID = src.TransactionID
	dst.MessageType = src.MessageType
	// SenderToken / ReceiverToken / VSExtension: omitempty and empty in every harness request: not in the text
}

func c16UnmarshalHook(data []byte, v interface{}) error {
	cur := c16CurReq[len(c16CurReq)-1]
	var base backend.BasePayload
	switch r := cur.(type) {
	case backend.JoinReqPayload:
		base = r.BasePayload
	case backend.RejoinReqPayload:
		base = r.BasePayload
	}
	switch t := v.(type) {
	case *backend.BasePayload:
		c16AssignBase(t, base)
	case *backend.JoinReqPayload:
		r := cur.(backend.JoinReqPayload)
		c16AssignBase(&t.BasePayload, base)
		t.MACVersion, t.PHYPayload, t.DevEUI, t.DevAddr, t.DLSettings, t.RxDelay = r.MACVersion, r.PHYPayload, r.DevEUI, r.DevAddr, r.DLSettings, r.RxDelay
		if len(r.CFList) > 0 {
			t.CFList = r.CFList
		}
	case *backend.RejoinReqPayload:
		r := cur.(backend.RejoinReqPayload)
		c16AssignBase(&t.BasePayload, base)
		t.MACVersion, t.PHYPayload, t.DevEUI, t.DevAddr, t.DLSettings, t.RxDelay = r.MACVersion, r.PHYPayload, r.DevEUI, r.DevAddr, r.DLSettings, r.RxDelay
		if len(r.CFList) > 0 {
			t.CFList = r.CFList
		}
	default:
		panic("verif: json.Unmarshal target not modelled")
	}
	return nil
}

func c16MarshalHook(v interface{}) ([]byte, error) {
	switch a := v.(type) {
	case backend.JoinAnsPayload:
		c16LastAns = c16FromJoinAns(a)
	case backend.RejoinAnsPayload:
		c16LastAns = c16FromRejoinAns(a)
	case backend.Result:
		c16LastAns = c16Ans{set: true, code: a.ResultCode}
	default:
		panic("verif: json.Marshal value not modelled")
	}
	return []byte{'{', '}'}, nil
}

// c16Serve posts one request through ServeHTTP and returns the answer.
func c16Serve(h http.Handler, req interface{}) c16Ans {
	w := &c16Writer{}
	if verifSymbolic() {
		c16CurReq = append(c16CurReq, req)
		c16LastAns = c16Ans{}
		h.ServeHTTP(w, &http.Request{Body: &c16Body{b: []byte{'{', '}'}}})
		c16CurReq = c16CurReq[:len(c16CurReq)-1]
		a := c16LastAns
		verifAssert(a.set, "the handler writes an answer")
		return a
	}
	body, err := json.Marshal(req)
	if err != nil {
		panic(err)
	}
	h.ServeHTTP(w, &http.Request{Body: &c16Body{b: body}})
	if _, ok := req.(backend.RejoinReqPayload); ok {
		var a backend.RejoinAnsPayload
		if err := json.Unmarshal(w.buf, &a); err != nil {
			panic(err)
		}
		return c16FromRejoinAns(a)
	}
	var a backend.JoinAnsPayload
	if err := json.Unmarshal(w.buf, &a); err != nil {
		panic(err)
	}
	return c16FromJoinAns(a)
}

func c16EnvEq(a, b *backend.KeyEnvelope) bool {
	if a == nil || b == nil {
		return a == nil && b == nil
	}
	return a.KEKLabel == b.KEKLabel && verifBytesEq([]byte(a.AESKey), []byte(b.AESKey))
}

func c16AnsSame(a, b c16Ans, what string) {
	verifAssert(a.sender == b.sender && a.receiver == b.receiver && a.tx == b.tx && a.mt == b.mt, what+": sender, receiver, transaction id and message type")
	verifAssert(a.code == b.code, what+": result code")
	verifAssert(verifBytesEq(a.phy, b.phy), what+": PHYPayload")
	for i := range a.keys {
		verifAssert(c16EnvEq(a.keys[i], b.keys[i]), what+": key envelopes")
	}
}

// c16SenderForm: text form of the SenderID the next requests use (0 lower-case hex, 1 upper-case hex, 2 0x prefix)
var c16SenderForm int

// request kinds: 0 join-request without CFList, 1 join-request with CFList, 2 rejoin-request (type 0) with CFList,
// 3 rejoin-request without CFList, 4 join-request of an unknown device, 5 rejoin-request of an unknown device.
func c16MakeReq(kind int, d c16Device, other lorawan.EUI64, tag string) (interface{}, c16Request) {
	_, r := c16Draw(0, 0, 0)
	if kind == 1 || kind == 2 {
		r.cflist = verifNondetBytes("cflist"+tag, 16)
		verifAssume(r.cflist[15] == 0)
	}
	devEUI := d.devEUI
	if kind >= 4 {
		devEUI = other
	}
	sender := lorawan.NetID(verifNondet3("senderNetID" + tag))
	senderText := sender.String()
	switch c16SenderForm {
	case 1:
		senderText = c16HexUpper(sender[:])
	case 2:
		senderText = "0x" + senderText
	}
	base := backend.BasePayload{ProtocolVersion: backend.ProtocolVersion1_0, SenderID: senderText, ReceiverID: d.joinEUI.String(), TransactionID: r.txID}
	if kind == 0 || kind == 1 || kind == 4 {
		devNonce := verifNondetU16("devNonce" + tag)
		body := append(append(c16Rev8(d.joinEUI), c16Rev8(devEUI)...), byte(devNonce), byte(devNonce>>8))
		msg := append([]byte{0x00}, body...)
		mic := c16First4(verifCMAC(d.nwkKey[:], msg))
		base.MessageType = backend.JoinReq
		return backend.JoinReqPayload{BasePayload: base, MACVersion: "1.0.3", PHYPayload: backend.HEXBytes(append(msg, mic[:]...)), DevEUI: devEUI, DevAddr: r.devAddr,
			DLSettings: lorawan.DLSettings{OptNeg: r.optNeg, RX1DROffset: r.rx1Off, RX2DataRate: r.rx2DR}, RxDelay: int(r.rxDelay), CFList: backend.HEXBytes(r.cflist)}, r
	}
	cnt := verifNondetU16("rjCount" + tag)
	body := append([]byte{0, sender[2], sender[1], sender[0]}, c16Rev8(devEUI)...)
	body = append(body, byte(cnt), byte(cnt>>8))
	msg := append([]byte{0xc0}, body...)
	mic := verifNondet4("rejoinMIC" + tag)
	base.MessageType = backend.RejoinReq
	return backend.RejoinReqPayload{BasePayload: base, MACVersion: "1.1.0", PHYPayload: backend.HEXBytes(append(msg, mic[:]...)), DevEUI: devEUI, DevAddr: r.devAddr,
		DLSettings: lorawan.DLSettings{OptNeg: true, RX1DROffset: r.rx1Off, RX2DataRate: r.rx2DR}, RxDelay: int(r.rxDelay), CFList: backend.HEXBytes(r.cflist)}, r
}

func c16CheckMirror(a c16Ans, req interface{}, kind int, r c16Request, what string) {
	var base backend.BasePayload
	wantMT := backend.JoinAns
	switch q := req.(type) {
	case backend.JoinReqPayload:
		base = q.BasePayload
	case backend.RejoinReqPayload:
		base = q.BasePayload
		wantMT = backend.RejoinAns
	}
	verifAssert(a.sender == base.ReceiverID, what+": the answer's sender is the request's receiver")
	verifAssert(a.receiver == base.SenderID, what+": the answer's receiver is the request's sender")
	verifAssert(a.tx == base.TransactionID, what+": the answer mirrors the transaction id")
	verifAssert(a.mt == wantMT, what+": the answer type matches the request type")
	if kind >= 4 {
		verifAssert(a.code == backend.UnknownDevEUI, what+": an unknown DevEUI yields UnknownDevEUI")
		return
	}
	verifAssert(a.code == backend.Success, what+": a valid request of a known device yields Success")
	if a.code == backend.Success {
		verifAssert(len(a.phy) == 1+12+len(r.cflist)+4, what+": join-accept length (CFList exactly when this request carried one)")
	}
}

// kindA, kindB: request kinds; mode 0: A then B one after the other, 1: B is served while A waits in its device-key
// look-up, 2: B is served while A waits in its KEK look-up.
func VerifC16_Handler(kindA, kindB, mode int) {
	if verifSymbolic() {
		verifJSONUnmarshalHook = c16UnmarshalHook
		verifJSONMarshalHook = c16MarshalHook
	}
	d, _ := c16Draw(0, 0, 0)
	other := lorawan.EUI64(verifNondet8("unknownDevEUI"))
	verifAssume(other != d.devEUI)
	jn := int(verifNondetU32("joinNonce") & 0xffffff)
	var h http.Handler
	var nested func()
	var err error
	h, err = NewHandler(HandlerConfig{
		GetDeviceKeysByDevEUIFunc: func(devEUI lorawan.EUI64) (DeviceKeys, error) {
			if f := nested; f != nil && mode == 1 {
				nested = nil
				f()
			}
			if devEUI == d.devEUI {
				return DeviceKeys{DevEUI: d.devEUI, NwkKey: lorawan.AES128Key(d.nwkKey), AppKey: lorawan.AES128Key(d.appKey), JoinNonce: jn}, nil
			}
			return DeviceKeys{}, ErrDevEUINotFound
		},
		GetKEKByLabelFunc: func(label string) ([]byte, error) {
			if f := nested; f != nil && mode == 2 {
				nested = nil
				f()
			}
			return nil, nil
		},
		GetASKEKLabelByDevEUIFunc: func(devEUI lorawan.EUI64) (string, error) { return "", nil },
	})
	verifAssert(err == nil, "NewHandler succeeds")
	reqA, rA := c16MakeReq(kindA, d, other, "A")
	reqB, rB := c16MakeReq(kindB, d, other, "B")
	// each request alone
	refA := c16Serve(h, reqA)
	c16CheckMirror(refA, reqA, kindA, rA, "request A alone")
	refB := c16Serve(h, reqB)
	c16CheckMirror(refB, reqB, kindB, rB, "request B after A")
	// together
	var ansB c16Ans
	if mode > 0 {
		nested = func() { ansB = c16Serve(h, reqB) }
	}
	ansA := c16Serve(h, reqA)
	if mode == 0 || nested != nil {
		nested = nil
		ansB = c16Serve(h, reqB)
	}
	c16CheckMirror(ansA, reqA, kindA, rA, "request A with B in flight")
	c16CheckMirror(ansB, reqB, kindB, rB, "request B in flight with A")
	c16AnsSame(ansA, refA, "requests do not influence one another (A)")
	c16AnsSame(ansB, refB, "requests do not influence one another (B)")
	verifReach("done")
}

// The handler is its wrapper composed with the configured call-backs: with KEKs of every AES key length configured
// for the sender's label and the device's AS label, the answer written by ServeHTTP equals the answer of
// handleJoinRequestWrapper / handleRejoinRequestWrapper called with exactly what the call-backs return.
// kind: 0 join-request without CFList, 1 with CFList, 2 rejoin-request; kekLen: 0 (no KEKs), 16, 24, 32.
func VerifC16_HandlerKEK(kind, kekLen int) {
	if verifSymbolic() {
		verifJSONUnmarshalHook = c16UnmarshalHook
		verifJSONMarshalHook = c16MarshalHook
	}
	d, _ := c16Draw(0, 0, 0)
	other := lorawan.EUI64(verifNondet8("unknownDevEUI"))
	verifAssume(other != d.devEUI)
	jn := int(verifNondetU32("joinNonce") & 0xffffff)
	dk := DeviceKeys{DevEUI: d.devEUI, NwkKey: lorawan.AES128Key(d.nwkKey), AppKey: lorawan.AES128Key(d.appKey), JoinNonce: jn}
	var nsKEK, asKEK []byte
	asLabel := ""
	if kekLen > 0 {
		nsKEK, asKEK, asLabel = verifNondetBytes("nsKEK", kekLen), verifNondetBytes("asKEK", kekLen), "as-kek"
	}
	req, r := c16MakeReq(kind, d, other, "A")
	var sender string
	switch q := req.(type) {
	case backend.JoinReqPayload:
		sender = q.SenderID
	case backend.RejoinReqPayload:
		sender = q.SenderID
	}
	h, err := NewHandler(HandlerConfig{
		GetDeviceKeysByDevEUIFunc: func(devEUI lorawan.EUI64) (DeviceKeys, error) {
			if devEUI == d.devEUI {
				return dk, nil
			}
			return DeviceKeys{}, ErrDevEUINotFound
		},
		GetKEKByLabelFunc: func(label string) ([]byte, error) {
			if kekLen == 0 {
				return nil, nil
			}
			if label == asLabel {
				return verifCopy(asKEK), nil
			}
			if label == sender {
				return verifCopy(nsKEK), nil
			}
			return nil, nil
		},
		GetASKEKLabelByDevEUIFunc: func(devEUI lorawan.EUI64) (string, error) { return asLabel, nil },
	})
	verifAssert(err == nil, "NewHandler succeeds")
	got := c16Serve(h, req)
	c16CheckMirror(got, req, kind, r, "handler answer")
	var want c16Ans
	switch q := req.(type) {
	case backend.JoinReqPayload:
		want = c16FromJoinAns(handleJoinRequestWrapper(q, dk, asLabel, asKEK, sender, nsKEK))
	case backend.RejoinReqPayload:
		want = c16FromRejoinAns(handleRejoinRequestWrapper(q, dk, asLabel, asKEK, sender, nsKEK))
	}
	c16AnsSame(got, want, "the handler answers what its wrapper answers for the values the call-backs returned (KEKs of any AES key length)")
	verifReach("done")
}

const c16UpperHex = "0123456789ABCDEF"

func c16HexUpper(b []byte) string {
	out := make([]byte, 0, 2*len(b))
	for _, x := range b {
		out = append(out, c16UpperHex[x>>4], c16UpperHex[x&15])
	}
	return string(out)
}

// Sender / receiver ids are mirrored as received, whatever accepted text form they use.
// form 0: lower-case hex, 1: upper-case hex, 2: 0x prefix.
func VerifC16_IDForms(form, optNeg int) {
	d, r := c16Draw(0, 0, 0)
	r.optNeg = optNeg == 1
	devNonce := verifNondetU16("devNonce")
	body := append(append(c16Rev8(d.joinEUI), c16Rev8(d.devEUI)...), byte(devNonce), byte(devNonce>>8))
	msg := append([]byte{0x00}, body...)
	mic := c16First4(verifCMAC(d.nwkKey[:], msg))
	sender, receiver := d.netID.String(), d.joinEUI.String()
	switch form {
	case 1:
		sender, receiver = c16HexUpper(d.netID[:]), c16HexUpper(d.joinEUI[:])
	case 2:
		sender, receiver = "0x"+sender, "0x"+receiver
	}
	req := backend.JoinReqPayload{
		BasePayload: backend.BasePayload{ProtocolVersion: backend.ProtocolVersion1_0, SenderID: sender, ReceiverID: receiver, TransactionID: r.txID, MessageType: backend.JoinReq},
		MACVersion:  "1.0.3", PHYPayload: backend.HEXBytes(append(msg, mic[:]...)), DevEUI: d.devEUI, DevAddr: r.devAddr,
		DLSettings: lorawan.DLSettings{OptNeg: r.optNeg, RX1DROffset: r.rx1Off, RX2DataRate: r.rx2DR}, RxDelay: int(r.rxDelay),
	}
	dk := DeviceKeys{DevEUI: d.devEUI, NwkKey: lorawan.AES128Key(d.nwkKey), AppKey: lorawan.AES128Key(d.appKey), JoinNonce: int(r.joinNonce)}
	ans := handleJoinRequestWrapper(req, dk, "", nil, sender, nil)
	verifAssert(ans.Result.ResultCode == backend.Success, "ids in any accepted text form: a valid join-request yields Success")
	verifAssert(ans.SenderID == receiver, "the answer's sender is the request's receiver, as received")
	verifAssert(ans.ReceiverID == sender, "the answer's receiver is the request's sender, as received")
	verifAssert(ans.TransactionID == r.txID, "the answer mirrors the transaction id")
	if ans.Result.ResultCode == backend.Success {
		acc := []byte(ans.PHYPayload)
		jaBody, _ := c16Decrypt(d.nwkKey, acc)
		c16CheckAccept(d, r, jaBody)
	}
	verifReach("done")
}

// The key store is the caller's: the handler must leave the slices its call-backs return untouched, and a second
// request through the same handler and store gets the same answer as the first.
func VerifC16_HandlerStore(kind, kekLen int) {
	if verifSymbolic() {
		verifJSONUnmarshalHook = c16UnmarshalHook
		verifJSONMarshalHook = c16MarshalHook
	}
	d, _ := c16Draw(0, 0, 0)
	other := lorawan.EUI64(verifNondet8("unknownDevEUI"))
	verifAssume(other != d.devEUI)
	jn := int(verifNondetU32("joinNonce") & 0xffffff)
	dk := DeviceKeys{DevEUI: d.devEUI, NwkKey: lorawan.AES128Key(d.nwkKey), AppKey: lorawan.AES128Key(d.appKey), JoinNonce: jn}
	nsKEK, asKEK := verifNondetBytes("nsKEK", kekLen), verifNondetBytes("asKEK", kekLen)
	nsOrig, asOrig := verifCopy(nsKEK), verifCopy(asKEK)
	req, r := c16MakeReq(kind, d, other, "A")
	var sender string
	switch q := req.(type) {
	case backend.JoinReqPayload:
		sender = q.SenderID
	case backend.RejoinReqPayload:
		sender = q.SenderID
	}
	h, err := NewHandler(HandlerConfig{
		GetDeviceKeysByDevEUIFunc: func(devEUI lorawan.EUI64) (DeviceKeys, error) {
			if devEUI == d.devEUI {
				return dk, nil
			}
			return DeviceKeys{}, ErrDevEUINotFound
		},
		GetKEKByLabelFunc: func(label string) ([]byte, error) {
			if label == "as-kek" {
				return asKEK, nil // the store's own slice
			}
			if label == sender {
				return nsKEK, nil
			}
			return nil, nil
		},
		GetASKEKLabelByDevEUIFunc: func(devEUI lorawan.EUI64) (string, error) { return "as-kek", nil },
	})
	verifAssert(err == nil, "NewHandler succeeds")
	first := c16Serve(h, req)
	c16CheckMirror(first, req, kind, r, "first answer")
	verifAssert(verifBytesEq(nsKEK, nsOrig) && verifBytesEq(asKEK, asOrig), "the handler does not modify the key material its call-backs returned")
	second := c16Serve(h, req)
	c16AnsSame(second, first, "the same request through the same handler and key store gets the same answer")
	verifReach("done")
}

// KEKs are looked up under the SenderID exactly as received (upper-case / 0x forms included).
func VerifC16_HandlerKEKForms(kind, form int) {
	c16SenderForm = form
	VerifC16_HandlerKEK(kind, 16)
	c16SenderForm = 0
}

// A handler configured with the mandatory device-key look-up only answers like one whose optional call-backs
// return "nothing configured".
func VerifC16_HandlerDefaults(kind int) {
	if verifSymbolic() {
		verifJSONUnmarshalHook = c16UnmarshalHook
		verifJSONMarshalHook = c16MarshalHook
	}
	d, _ := c16Draw(0, 0, 0)
	other := lorawan.EUI64(verifNondet8("unknownDevEUI"))
	verifAssume(other != d.devEUI)
	jn := int(verifNondetU32("joinNonce") & 0xffffff)
	dk := DeviceKeys{DevEUI: d.devEUI, NwkKey: lorawan.AES128Key(d.nwkKey), AppKey: lorawan.AES128Key(d.appKey), JoinNonce: jn}
	h, err := NewHandler(HandlerConfig{
		GetDeviceKeysByDevEUIFunc: func(devEUI lorawan.EUI64) (DeviceKeys, error) {
			if devEUI == d.devEUI {
				return dk, nil
			}
			return DeviceKeys{}, ErrDevEUINotFound
		},
	})
	verifAssert(err == nil, "NewHandler succeeds with the mandatory call-back only")
	req, r := c16MakeReq(kind, d, other, "A")
	got := c16Serve(h, req)
	c16CheckMirror(got, req, kind, r, "handler without optional call-backs")
	var want c16Ans
	switch q := req.(type) {
	case backend.JoinReqPayload:
		want = c16FromJoinAns(handleJoinRequestWrapper(q, dk, "", nil, q.SenderID, nil))
	case backend.RejoinReqPayload:
		want = c16FromRejoinAns(handleRejoinRequestWrapper(q, dk, "", nil, q.SenderID, nil))
	}
	if kind < 4 {
		c16AnsSame(got, want, "without optional call-backs the keys travel in clear, as with call-backs that configure nothing")
	}
	verifReach("done")
}
