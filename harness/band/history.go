package band

import "github.com/brocaar/lorawan"

// History preludes and same-object histories for the band package: state that an implementation keeps between
// calls (shared tables between band objects, per-object memos) must not change any answer.

// Every band is constructed (both repeater settings) before the main harness runs: constructors must not write
// anything another band object reads.
func VerifHist_AllBands() {
	for n := range verifNames {
		for rep := 0; rep <= 1; rep++ {
			_, err := GetConfig(verifNames[n], rep != 0, lorawan.DwellTime(n%2))
			verifAssert(err == nil, "GetConfig succeeds for every band name")
		}
	}
	verifReach("constructed")
}

// The same band object queried twice: the answer for (version, revision, dr) does not depend on what was asked before.
func VerifC13_MaxPayloadTwice(n, rep, dt, ver1, rev1, ver2, rev2 int) {
	used, _, _ := verifBand(n, rep, dt)
	fresh, _, _ := verifBand(n, rep, dt)
	dr1 := verifNondetInt("dr1")
	dr2 := verifNondetInt("dr2")
	used.GetMaxPayloadSizeForDataRateIndex(c13Versions[ver1], c13Revisions[rev1], dr1)
	a, errA := used.GetMaxPayloadSizeForDataRateIndex(c13Versions[ver2], c13Revisions[rev2], dr2)
	b, errB := fresh.GetMaxPayloadSizeForDataRateIndex(c13Versions[ver2], c13Revisions[rev2], dr2)
	verifAssert((errA == nil) == (errB == nil), "max payload size: a band object that answered another query before defines the same data-rates as a fresh one")
	if errA == nil && errB == nil {
		verifAssert(a.M == b.M && a.N == b.N, "max payload size: the answer does not depend on earlier queries to the same band object")
	}
	// the other per-object look-ups after a first use
	d1, e1 := used.GetDataRateIndex(true, DataRate{Modulation: LoRaModulation, SpreadFactor: 7, Bandwidth: 125})
	d2, e2 := fresh.GetDataRateIndex(true, DataRate{Modulation: LoRaModulation, SpreadFactor: 7, Bandwidth: 125})
	verifAssert((e1 == nil) == (e2 == nil) && (e1 != nil || d1 == d2), "data-rate look-up: same answer from a used and a fresh band object")
	verifReach("done")
}

// C12: RX1 channel index and RX1 frequency denote the same existing downlink channel also after AddChannel calls
// with arbitrary frequencies (a frequency that is already in the plan included).
func VerifC12_RX1AfterAdd(n, k int) {
	b, in, _ := verifBand(n, 0, 0)
	if !in.supportsExtraChannels {
		verifReach("no-extra-channels")
		return
	}
	for j := 0; j < k; j++ {
		f := verifNondetU32("freq")
		// an existing uplink frequency or any other one
		if verifNondetBool("existing") {
			f = in.uplinkChannels[0].Frequency
		}
		verifAssert(b.AddChannel(f, 0, 5) == nil, "AddChannel succeeds")
	}
	N := len(in.uplinkChannels)
	verifAssert(len(in.downlinkChannels) == N, "every uplink channel has its downlink channel (same index)")
	for i := 0; i < N; i++ {
		idx, err := b.GetRX1ChannelIndexForUplinkChannelIndex(i)
		verifAssert(err == nil, "RX1 channel index is defined for every uplink channel")
		dl, err := b.GetDownlinkChannel(idx)
		verifAssert(err == nil, "the RX1 channel index denotes an existing downlink channel")
		up, err := b.GetUplinkChannel(i)
		verifAssert(err == nil, "uplink channel exists")
		f, err := b.GetRX1FrequencyForUplinkFrequency(up.Frequency)
		verifAssert(err == nil, "RX1 frequency is defined for every uplink frequency")
		verifAssert(f == dl.Frequency, "RX1 frequency from the uplink frequency == frequency of the RX1 channel from the index")
	}
	verifReach("done")
}
