package band

import "github.com/brocaar/lorawan"

// Configuration enumeration shared by the band harnesses (C12-C15).

var verifNames = []Name{EU868, US915, CN779, EU433, AU915, CN470, AS923, AS923_2, AS923_3, AS923_4, KR920, IN865, RU864, ISM2400,
	// deprecated aliases
	AS_923, AU_915_928, CN_470_510, CN_779_787, EU_433, EU_863_870, IN_865_867, KR_920_923, US_902_928, RU_864_870}

// canonical index of every name (aliases map to their common name)
var verifCanon = []int{0, 1, 2, 3, 4, 5, 6, 7, 8, 9, 10, 11, 12, 13, 6, 4, 5, 2, 3, 0, 11, 10, 1, 12}

const (
	bEU868 = iota
	bUS915
	bCN779
	bEU433
	bAU915
	bCN470
	bAS923
	bAS923_2
	bAS923_3
	bAS923_4
	bKR920
	bIN865
	bRU864
	bISM2400
)

func verifInner(b Band) *band {
	switch v := b.(type) {
	case *eu863Band:
		return &v.band
	case *us902Band:
		return &v.band
	case *cn779Band:
		return &v.band
	case *eu443Band:
		return &v.band
	case *au915Band:
		return &v.band
	case *cn470Band:
		return &v.band
	case *as923Band:
		return &v.band
	case *kr920Band:
		return &v.band
	case *in865Band:
		return &v.band
	case *ru864Band:
		return &v.band
	case *ism2400Band:
		return &v.band
	}
	return nil
}

func verifBand(n, rep, dt int) (Band, *band, int) {
	b, err := GetConfig(verifNames[n], rep != 0, lorawan.DwellTime(dt))
	verifAssert(err == nil, "GetConfig succeeds for every band name")
	in := verifInner(b)
	verifAssert(in != nil, "band implementation known to the harness")
	return b, in, verifCanon[n]
}

func verifMaxInt(a, b int) int { return verifIteInt(a > b, a, b) }
func verifMinInt(a, b int) int { return verifIteInt(a < b, a, b) }

// verifIsDownlinkDR: dr (symbolic) is a defined data-rate usable for downlink, from the band's own table.
func verifIsDownlinkDR(in *band, dr int) bool {
	ok := false
	for i := -1; i <= 16; i++ {
		d, def := in.dataRates[i]
		if def && d.downlink {
			ok = verifOr(ok, dr == i)
		}
	}
	return ok
}
