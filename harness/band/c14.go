package band

// C14: LinkADRReq channel-mask planning reaches exactly the network's channel set.

// order: 0 ascending device list, 1 descending.
func VerifC14_Plan(n, k, win, pat, devPat, order int) {
	b, in, _ := c15State(n, 0, 0, k, win, pat)
	N := len(in.uplinkChannels)
	nStd := N
	for i, c := range in.uplinkChannels {
		if c.custom {
			nStd = i
			break
		}
	}
	member := make([]bool, N)
	var dev []int
	for i := 0; i < N; i++ {
		if c15Sym(i, nStd, win) {
			member[i] = verifNondetBool("deviceHas")
		} else {
			member[i] = c15Pattern(i, devPat)
		}
	}
	if order == 0 {
		for i := 0; i < N; i++ {
			if member[i] {
				dev = append(dev, i)
			}
		}
	} else {
		for i := N - 1; i >= 0; i-- {
			if member[i] {
				dev = append(dev, i)
			}
		}
	}
	// expected: network-enabled channels the device can know
	var want []int
	same := true
	for i := 0; i < N; i++ {
		c := in.uplinkChannels[i]
		w := c.enabled && (!c.custom || member[i])
		if w {
			want = append(want, i)
		}
		if w != member[i] {
			same = false
		}
	}
	plan := b.GetLinkADRReqPayloadsForEnabledUplinkChannelIndices(dev)
	for _, p := range plan {
		_, err := p.MarshalBinary()
		verifAssert(err == nil, "every generated LinkADRReq payload is encodable")
	}
	verifAssert(len(plan) <= (N+15)/16+1, "at most one payload per 16-channel block plus one")
	if same {
		verifAssert(len(plan) == 0, "nothing is produced when the device already matches")
	}
	got, err := b.GetEnabledUplinkChannelIndicesForLinkADRReqPayloads(dev, plan)
	verifAssert(err == nil, "applying the generated payloads succeeds")
	verifAssert(len(got) == len(want), "applying the plan yields the network's enabled channels the device can know (count)")
	for i := range want {
		if i < len(got) {
			verifAssert(got[i] == want[i], "applying the plan yields the network's enabled channels the device can know (members)")
		}
	}
	verifNoGlobalWritesExcept("") // C10: no hidden package-level state is written
	verifReach("done")
}
