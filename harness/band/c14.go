package band

// C14: LinkADRReq channel-mask planning reaches exactly the network's channel set.

// order: 0 ascending device list, 1 descending.
func VerifC14_Plan(n, k, win, pat, devPat, order int) {
	b, in, _ := c15State(n, 0, 0, k, win, pat)
	N := len(in.uplinkChannels)
	nStd := N
	for i, c := range in.uplinkChannels {
		if c.custom {
			nStd = i
			break
		}
	}
	member := make([]bool, N)
	var dev []int
	for i := 0; i < N; i++ {
		if c15Sym(i, nStd, win) {
			member[i] = verifNondetBool("deviceHas")
		} else {
			member[i] = c15Pattern(i, devPat)
		}
	}
	if order == 0 {
		for i := 0; i < N; i++ {
			if member[i] {
				dev = append(dev, i)
			}
		}
	} else {
		for i := N - 1; i >= 0; i-- {
			if member[i] {
				dev = append(dev, i)
			}
		}
	}
	// expected: network-enabled channels the device can know
	var want []int
	same := true
	for i := 0; i < N; i++ {
		c := in.uplinkChannels[i]
		w := c.enabled && (!c.custom || member[i])
		if w {
			want = append(want, i)
		}
		if w != member[i] {
			same = false
		}
	}
	plan := b.GetLinkADRReqPayloadsForEnabledUplinkChannelIndices(dev)
	for _, p := range plan {
		_, err := p.MarshalBinary()
		verifAssert(err == nil, "every generated LinkADRReq payload is encodable")
	}
	verifAssert(len(plan) <= (N+15)/16+1, "at most one payload per 16-channel block plus one")
	if same {
		verifAssert(len(plan) == 0, "nothing is produced when the device already matches")
	}
	got, err := b.GetEnabledUplinkChannelIndicesForLinkADRReqPayloads(dev, plan)
	verifAssert(err == nil, "applying the generated payloads succeeds")
	verifAssert(len(got) == len(want), "applying the plan yields the network's enabled channels the device can know (count)")
	for i := range want {
		if i < len(got) {
			verifAssert(got[i] == want[i], "applying the plan yields the network's enabled channels the device can know (members)")
		}
	}
	verifNoGlobalWritesExcept("") // C10: no hidden package-level state is written
	verifReach("done")
}

// Device sets that reach beyond the network's current plan (stale CFList / NewChannelReq channels the network has
// dropped): ext further indices N .. N+ext-1 may be enabled on the device (each one symbolic). Such a channel is not
// a network channel, so the plan must take the device to the same set as before - and the planner must get there
// without panicking. pos 0: the stale indices come last in the device list, 1: first, 2: descending list.
func VerifC14_PlanBeyond(n, k, ext, pos int) {
	win := -1
	if _, in0, _ := verifBand(n, 0, 0); len(in0.uplinkChannels) > 16 {
		// 72 / 96-channel plans: the last four channels (and the stale indices) symbolic, the others enabled on
		// both sides
		win = len(in0.uplinkChannels) - 4
	}
	b, in, _ := c15State(n, 0, 0, k, win, 0)
	N := len(in.uplinkChannels)
	member := make([]bool, N+ext)
	for i := 0; i < N+ext; i++ {
		if i > N && i < N+ext-1 && ext > 4 {
			continue // long reach: only the first and the last stale index are symbolic
		}
		if i < N && !c15Sym(i, N, win) {
			member[i] = true
			continue
		}
		member[i] = verifNondetBool("deviceHas")
	}
	anyStale := false
	for i := N; i < N+ext; i++ {
		if member[i] {
			anyStale = true
		}
	}
	var dev []int
	switch pos {
	case 0:
		for i := 0; i < N+ext; i++ {
			if member[i] {
				dev = append(dev, i)
			}
		}
	case 1:
		for i := N; i < N+ext; i++ {
			if member[i] {
				dev = append(dev, i)
			}
		}
		for i := 0; i < N; i++ {
			if member[i] {
				dev = append(dev, i)
			}
		}
	default:
		for i := N + ext - 1; i >= 0; i-- {
			if member[i] {
				dev = append(dev, i)
			}
		}
	}
	var want []int
	same := !anyStale
	for i := 0; i < N; i++ {
		c := in.uplinkChannels[i]
		w := c.enabled && (!c.custom || member[i])
		if w {
			want = append(want, i)
		}
		if w != member[i] {
			same = false
		}
	}
	plan := b.GetLinkADRReqPayloadsForEnabledUplinkChannelIndices(dev)
	for _, p := range plan {
		_, err := p.MarshalBinary()
		verifAssert(err == nil, "every generated LinkADRReq payload is encodable (device set beyond the plan)")
	}
	verifAssert(len(plan) <= (N+ext+15)/16+1, "at most one payload per 16-channel block plus one (device set beyond the plan)")
	if same {
		verifAssert(len(plan) == 0, "nothing is produced when the device already matches (device set beyond the plan)")
	}
	got, err := b.GetEnabledUplinkChannelIndicesForLinkADRReqPayloads(dev, plan)
	verifAssert(err == nil, "applying the generated payloads succeeds (device set beyond the plan)")
	verifAssert(len(got) == len(want), "a channel the network does not have is switched off; the rest reaches the network's set (count)")
	for i := range want {
		if i < len(got) {
			verifAssert(got[i] == want[i], "a channel the network does not have is switched off; the rest reaches the network's set (members)")
		}
	}
	verifReach("done")
}
