package band

import (
	"github.com/brocaar/lorawan"
)

// C14 / C15 share the symbolic channel-plan state: the band after an arbitrary history of
// AddChannel / Enable / Disable = standard channels (constant but for their enabled flag) followed by k
// custom channels with arbitrary frequency / data-rate range / enabled flag.

// c15Sym: is the enabled flag (and the device membership bit) of channel i symbolic?
// win < 0: every channel; otherwise the 4 channels win..win+3 and every custom channel.
func c15Sym(i, nStd, win int) bool {
	if win < 0 || i >= nStd {
		return true
	}
	return i >= win && i < win+4
}

func c15Pattern(i, pat int) bool {
	switch pat {
	case 0:
		return true
	case 1:
		return false
	}
	return i%2 == 0
}

func c15State(n, rep, dt, k, win, pat int) (Band, *band, int) {
	return c15StateF(n, rep, dt, k, win, pat, 0)
}

// freqMode 0: arbitrary uint32 custom frequencies, 1: valid channel frequencies
func c15StateF(n, rep, dt, k, win, pat, freqMode int) (Band, *band, int) {
	b, in, canon := verifBand(n, rep, dt)
	nStd := len(in.uplinkChannels)
	if !in.supportsExtraChannels {
		k = 0
	}
	for j := 0; j < k; j++ {
		f := verifNondetU32("customFreq")
		if freqMode == 1 {
			// valid channel frequencies only: a multiple of 100 Hz that LoRaWAN can express (24 bit x 100 Hz);
			// for ISM2400 a 2.4 GHz frequency in 200 Hz steps
			if canon == bISM2400 {
				f = 2400000000 + (f&0x3ffff)*200
			} else {
				f = (f & 0xffffff) * 100
			}
		}
		minDR := verifNondetInt("customMinDR")
		maxDR := verifNondetInt("customMaxDR")
		c := Channel{Frequency: f, MinDR: minDR, MaxDR: maxDR, custom: true, enabled: f != 0}
		in.uplinkChannels = append(in.uplinkChannels, c)
		in.downlinkChannels = append(in.downlinkChannels, c)
	}
	for i := range in.uplinkChannels {
		if c15Sym(i, nStd, win) {
			in.uplinkChannels[i].enabled = verifNondetBool("enabled")
		} else {
			in.uplinkChannels[i].enabled = c15Pattern(i, pat)
		}
	}
	return b, in, canon
}

func c15Contains(l []int, x int) bool {
	for _, v := range l {
		if v == x {
			return true
		}
	}
	return false
}

func c15Ascending(l []int) bool {
	for i := 1; i < len(l); i++ {
		if l[i-1] >= l[i] {
			return false
		}
	}
	return true
}

// Invariants of the index sets in an arbitrary reachable state.
func VerifC15_Sets(n, rep, dt, k, win, pat int) {
	b, in, _ := c15State(n, rep, dt, k, win, pat)
	N := len(in.uplinkChannels)
	all := b.GetUplinkChannelIndices()
	en := b.GetEnabledUplinkChannelIndices()
	dis := b.GetDisabledUplinkChannelIndices()
	std := b.GetStandardUplinkChannelIndices()
	cus := b.GetCustomUplinkChannelIndices()
	verifAssert(len(all) == N, "all indices: one per channel")
	verifAssert(len(en)+len(dis) == N, "enabled and disabled partition all channels (sizes)")
	verifAssert(len(std)+len(cus) == N, "standard and custom partition all channels (sizes)")
	verifAssert(c15Ascending(all) && c15Ascending(en) && c15Ascending(dis) && c15Ascending(std) && c15Ascending(cus), "index lists are strictly ascending (no duplicates)")
	for i := 0; i < N; i++ {
		verifAssert(all[i] == i, "all indices are 0..N-1")
		verifAssert(c15Contains(en, i) != c15Contains(dis, i), "every channel is either enabled or disabled")
		verifAssert(c15Contains(std, i) != c15Contains(cus, i), "every channel is either standard or custom")
		verifAssert(c15Contains(cus, i) == (i >= N-len(cus)), "custom channels are exactly the appended ones")
	}
	verifReach("done")
}

// One step from an arbitrary reachable state. op: 0 AddChannel, 1 Disable, 2 Enable.
func VerifC15_Step(n, rep, dt, k, op int) {
	b, in, _ := c15State(n, rep, dt, k, -2, 0) // enabled flags of standard channels: concrete pattern, custom: symbolic
	N := len(in.uplinkChannels)
	before := append([]Channel(nil), in.uplinkChannels...)
	beforeDown := append([]Channel(nil), in.downlinkChannels...)
	switch op {
	case 0:
		f := verifNondetU32("freq")
		minDR := verifNondetInt("minDR")
		maxDR := verifNondetInt("maxDR")
		err := b.AddChannel(f, minDR, maxDR)
		if !in.supportsExtraChannels {
			verifAssert(err != nil, "AddChannel is refused by bands without extra channels")
			verifAssert(len(in.uplinkChannels) == N, "a refused AddChannel changes nothing")
		} else {
			verifAssert(err == nil, "AddChannel succeeds")
			verifAssert(len(in.uplinkChannels) == N+1, "AddChannel appends exactly one uplink channel")
			verifAssert(len(in.downlinkChannels) == len(beforeDown)+1, "AddChannel appends exactly one downlink channel")
			c := in.uplinkChannels[N]
			verifAssert(c.Frequency == f && c.MinDR == minDR && c.MaxDR == maxDR && c.custom, "the appended channel carries the given parameters and is custom")
			idx := b.GetCustomUplinkChannelIndices()
			verifAssert(len(idx) > 0 && idx[len(idx)-1] == N, "the appended channel is reported as the last custom channel")
		}
	case 1, 2:
		i := verifNondetInt("index")
		var err error
		if op == 1 {
			err = b.DisableUplinkChannelIndex(i)
		} else {
			err = b.EnableUplinkChannelIndex(i)
		}
		valid := verifAnd(i >= 0, i < N)
		verifAssert((err == nil) == valid, "an index is accepted exactly when the channel exists (negative and too large indices are errors)")
		for j := 0; j < N; j++ {
			if err == nil {
				verifAssert(verifImplies(i == j, in.uplinkChannels[j].enabled == (op == 2)), "the addressed channel has the requested state")
			}
			verifAssert(verifImplies(verifOr(err != nil, i != j), in.uplinkChannels[j].enabled == before[j].enabled), "other channels keep their state")
		}
	}
	for j := 0; j < N; j++ {
		a, c := in.uplinkChannels[j], before[j]
		verifAssert(a.Frequency == c.Frequency && a.MinDR == c.MinDR && a.MaxDR == c.MaxDR && a.custom == c.custom, "existing channels (standard ones in particular) are never altered")
	}
	for j := range beforeDown {
		verifAssert(in.downlinkChannels[j] == beforeDown[j], "existing downlink channels are never altered")
	}
	verifReach("done")
}

// c15SetsAgree: the five index sets are exactly what the channel list says.
func c15SetsAgree(b Band, in *band) {
	N := len(in.uplinkChannels)
	all := b.GetUplinkChannelIndices()
	en := b.GetEnabledUplinkChannelIndices()
	dis := b.GetDisabledUplinkChannelIndices()
	std := b.GetStandardUplinkChannelIndices()
	cus := b.GetCustomUplinkChannelIndices()
	verifAssert(len(all) == N, "all indices: one per channel (after any operation sequence)")
	verifAssert(len(en)+len(dis) == N, "enabled and disabled partition all channels after any operation sequence (sizes)")
	verifAssert(len(std)+len(cus) == N, "standard and custom partition all channels after any operation sequence (sizes)")
	for i := 0; i < N; i++ {
		c := in.uplinkChannels[i]
		verifAssert(c15Contains(en, i) == c.enabled, "a channel is reported enabled exactly when it is")
		verifAssert(c15Contains(dis, i) == !c.enabled, "a channel is reported disabled exactly when it is")
		verifAssert(c15Contains(cus, i) == c.custom, "a channel is reported custom exactly when it is")
		verifAssert(c15Contains(std, i) == !c.custom, "a channel is reported standard exactly when it is")
	}
}

// Lookups by frequency and by frequency + data-rate return a matching channel; accessors never panic.
func VerifC15_Lookup(n, rep, dt, k int) {
	b, in, _ := c15State(n, rep, dt, k, -2, 0)
	N := len(in.uplinkChannels)
	f := verifNondetU32("freq")
	def := verifNondetBool("defaultChannel")
	i, err := b.GetUplinkChannelIndex(f, def)
	if err == nil {
		verifAssert(verifAnd(i >= 0, i < N), "lookup by frequency returns an existing index")
		c, err := b.GetUplinkChannel(i)
		verifAssert(err == nil, "the returned index is valid")
		verifAssert(c.Frequency == f, "lookup by frequency returns a channel with that frequency")
		verifAssert(c.custom != def, "lookup by frequency honours the default/custom selector")
	} else {
		for j := 0; j < N; j++ {
			c := in.uplinkChannels[j]
			verifAssert(!verifAnd(c.Frequency == f, c.custom != def), "lookup by frequency fails only when no channel matches")
		}
	}
	dr := verifNondetInt("dr")
	i2, err := b.GetUplinkChannelIndexForFrequencyDR(f, dr)
	if err == nil {
		verifAssert(verifAnd(i2 >= 0, i2 < N), "lookup by frequency+DR returns an existing index")
		c, err := b.GetUplinkChannel(i2)
		verifAssert(err == nil, "the returned index is valid")
		verifAssert(c.Frequency == f, "lookup by frequency+DR returns a channel with that frequency")
		verifAssert(verifAnd(c.MinDR <= dr, dr <= c.MaxDR), "lookup by frequency+DR returns a channel supporting that data-rate")
	}
	x := verifNondetInt("anyIndex")
	_, e1 := b.GetUplinkChannel(x)
	verifAssert((e1 == nil) == verifAnd(x >= 0, x < N), "GetUplinkChannel: error exactly for non-existing indices")
	_, e2 := b.GetDownlinkChannel(x)
	verifAssert((e2 == nil) == verifAnd(x >= 0, x < len(in.downlinkChannels)), "GetDownlinkChannel: error exactly for non-existing indices")
	_, e3 := b.GetTXPowerOffset(x)
	verifAssert((e3 == nil) == verifAnd(x >= 0, x < len(in.txPowerOffsets)), "GetTXPowerOffset: error exactly for non-existing indices")
	verifReach("done")
}

var c15Versions = []string{LoRaWAN_1_0_0, LoRaWAN_1_0_1, LoRaWAN_1_0_2, LoRaWAN_1_0_3, LoRaWAN_1_0_4, LoRaWAN_1_1_0, "9.9.9"}

// CFList contents and encodability.
func VerifC15_CFList(n, rep, dt, k, ver, win, pat int) {
	b, in, canon := c15StateF(n, rep, dt, k, win, pat, 1)
	cf := b.GetCFList(c15Versions[ver])
	if in.supportsExtraChannels {
		// expected: the first five custom channels with the CFList data-rate range, in order
		var want []uint32
		for _, c := range in.uplinkChannels {
			if c.custom && len(want) < 5 && verifAnd(c.MinDR == in.cFListMinDR, c.MaxDR == in.cFListMaxDR) {
				want = append(want, c.Frequency)
			}
		}
		if len(want) == 0 {
			verifAssert(cf == nil, "no CFList without custom channels")
			verifReach("nil")
			return
		}
		allZero := true
		for _, f := range want {
			allZero = verifAnd(allZero, f == 0)
		}
		if allZero {
			verifReach("only-unused-slots")
			return
		}
		verifAssertKnown("C15-cflist-first-slot-zero", want[0] == 0, cf != nil, "a CFList is offered when there are custom channels")
		if cf == nil {
			verifReach("nil-first-zero")
			return
		}
		verifAssert(cf.CFListType == lorawan.CFListChannel, "CFList type is channel list")
		p, ok := cf.Payload.(*lorawan.CFListChannelPayload)
		verifAssert(ok, "CFList payload is a channel list")
		for i := 0; i < 5; i++ {
			if i < len(want) {
				verifAssert(p.Channels[i] == want[i], "CFList slot i == i-th custom channel (first five, in order)")
			} else {
				verifAssert(p.Channels[i] == 0, "unused CFList slots are zero")
			}
		}
	} else {
		if ver <= 2 {
			verifAssert(cf == nil, "no channel-mask CFList before LoRaWAN 1.0.3")
			verifReach("nil")
			return
		}
		verifAssert(cf != nil, "channel-mask CFList offered from LoRaWAN 1.0.3")
		verifAssert(cf.CFListType == lorawan.CFListChannelMask, "CFList type is channel mask")
		p, ok := cf.Payload.(*lorawan.CFListChannelMaskPayload)
		verifAssert(ok, "CFList payload is a channel-mask list")
		N := len(in.uplinkChannels)
		verifAssert(len(p.ChannelMasks) == (N+15)/16, "one mask per 16-channel block")
		for i := 0; i < len(p.ChannelMasks)*16; i++ {
			want := false
			if i < N {
				want = in.uplinkChannels[i].enabled
			}
			verifAssert(p.ChannelMasks[i/16][i%16] == want, "mask bit == enabled flag of the channel")
		}
	}
	// the MAC layer must be able to carry it
	raw, err := cf.MarshalBinary()
	verifAssertKnown("C15-ism2400-frequency-encoding", canon == bISM2400, err == nil, "the band's own CFList can be encoded by the MAC layer")
	if err != nil {
		verifReach("not-encodable")
		return
	}
	verifAssert(len(raw) == 16, "CFList is 16 bytes")
	ja := lorawan.JoinAcceptPayload{CFList: cf}
	_, err = ja.MarshalBinary()
	verifAssert(err == nil, "a join-accept carrying the CFList encodes")
	var back lorawan.CFList
	err = back.UnmarshalBinary(raw)
	verifAssert(err == nil, "the encoded CFList decodes")
	raw2, err := back.MarshalBinary()
	verifAssert(err == nil, "the decoded CFList encodes again")
	eq := true
	for i := range raw {
		eq = verifAnd(eq, raw[i] == raw2[i])
	}
	verifAssert(eq, "CFList decodes back to the same values")
	verifReach("done")
}

// The band's own default frequencies / data-rates are encodable by the MAC commands that carry them.
func VerifC15_MACEncodable(n, rep, dt int) {
	b, in, canon := verifBand(n, rep, dt)
	ism := canon == bISM2400
	d := b.GetDefaults()
	rx := lorawan.RXParamSetupReqPayload{Frequency: d.RX2Frequency, DLSettings: lorawan.DLSettings{RX2DataRate: uint8(d.RX2DataRate)}}
	raw, err := rx.MarshalBinary()
	verifAssertKnown("C15-ism2400-frequency-encoding", ism, err == nil, "RXParamSetupReq encodes the band's RX2 defaults")
	if err == nil {
		var back lorawan.RXParamSetupReqPayload
		verifAssert(back.UnmarshalBinary(raw) == nil, "RXParamSetupReq decodes")
		verifAssert(back.Frequency == d.RX2Frequency && int(back.DLSettings.RX2DataRate) == d.RX2DataRate, "RXParamSetupReq round trip of the RX2 defaults")
	}
	pf, err := b.GetPingSlotFrequency(lorawan.DevAddr{}, 0)
	verifAssert(err == nil, "ping-slot frequency defined")
	ps := lorawan.PingSlotChannelReqPayload{Frequency: pf, DR: uint8(d.RX2DataRate)}
	raw, err = ps.MarshalBinary()
	verifAssertKnown("C15-ism2400-frequency-encoding", ism, err == nil, "PingSlotChannelReq encodes the band's ping-slot frequency")
	if err == nil {
		var back lorawan.PingSlotChannelReqPayload
		verifAssert(back.UnmarshalBinary(raw) == nil, "PingSlotChannelReq decodes")
		verifAssert(back.Frequency == pf, "PingSlotChannelReq round trip")
	}
	bf := lorawan.BeaconFreqReqPayload{Frequency: pf}
	raw, err = bf.MarshalBinary()
	verifAssertKnown("C15-ism2400-frequency-encoding", ism, err == nil, "BeaconFreqReq encodes the band's beacon frequency")
	if err == nil {
		var back lorawan.BeaconFreqReqPayload
		verifAssert(back.UnmarshalBinary(raw) == nil, "BeaconFreqReq decodes")
		verifAssert(back.Frequency == pf, "BeaconFreqReq round trip")
	}
	for i, c := range in.uplinkChannels {
		if i >= 16 && i%8 != 0 {
			continue // sample of the regular plans
		}
		nc := lorawan.NewChannelReqPayload{ChIndex: uint8(i), Freq: c.Frequency, MinDR: uint8(c.MinDR), MaxDR: uint8(c.MaxDR)}
		raw, err := nc.MarshalBinary()
		verifAssert(err == nil, "NewChannelReq encodes the band's uplink channels")
		var back lorawan.NewChannelReqPayload
		verifAssert(back.UnmarshalBinary(raw) == nil, "NewChannelReq decodes")
		verifAssert(back.Freq == c.Frequency && int(back.MinDR) == c.MinDR && int(back.MaxDR) == c.MaxDR, "NewChannelReq round trip")
	}
	for i, c := range in.downlinkChannels {
		if i >= 16 && i%8 != 0 {
			continue
		}
		dl := lorawan.DLChannelReqPayload{ChIndex: uint8(i), Freq: c.Frequency}
		raw, err := dl.MarshalBinary()
		verifAssertKnown("C15-ism2400-frequency-encoding", ism, err == nil, "DLChannelReq encodes the band's downlink channels")
		if err == nil {
			var back lorawan.DLChannelReqPayload
			verifAssert(back.UnmarshalBinary(raw) == nil, "DLChannelReq decodes")
			verifAssert(back.Freq == c.Frequency, "DLChannelReq round trip")
		}
	}
	verifReach("done")
}

// Two steps with every query made before, between and after them: anything an implementation derives from the
// channel list and keeps (caches) must follow each operation. Standard channels: alternating enabled pattern,
// custom channels: symbolic. op1, op2: 0 AddChannel, 1 Disable, 2 Enable, 3 none.
func VerifC15_StepQueries(n, rep, dt, k, op1, op2 int) {
	b, in, _ := c15State(n, rep, dt, k, 1<<30, 2)
	c15SetsAgree(b, in)
	for _, op := range []int{op1, op2} {
		N := len(in.uplinkChannels)
		switch op {
		case 0:
			if !in.supportsExtraChannels {
				continue
			}
			verifAssert(b.AddChannel(verifNondetU32("freq"), verifNondetInt("minDR"), verifNondetInt("maxDR")) == nil, "AddChannel succeeds")
		case 1, 2:
			// one of the first two or last two channels
			i := int(verifNondetU8("index") & 3)
			if i >= 2 {
				i = N - 4 + i
			}
			if op == 1 {
				verifAssert(b.DisableUplinkChannelIndex(i) == nil, "Disable of an existing channel succeeds")
			} else {
				verifAssert(b.EnableUplinkChannelIndex(i) == nil, "Enable of an existing channel succeeds")
			}
		}
		c15SetsAgree(b, in)
	}
	verifReach("done")
}
