package band

import "github.com/brocaar/lorawan"

// C13: data-rate, channel-plan and max-payload tables are closed and consistent.

func c13Defined(in *band, dr int, up, down bool) bool {
	d, ok := in.dataRates[dr]
	if !ok {
		return false
	}
	if up && !d.uplink {
		return false
	}
	if down && !d.downlink {
		return false
	}
	return true
}

// Closed: every data-rate index the band refers to is a defined data-rate.
func VerifC13_Closed(n, rep, dt int) {
	b, in, _ := verifBand(n, rep, dt)
	for i, c := range in.uplinkChannels {
		_ = i
		verifAssert(c.MinDR <= c.MaxDR, "uplink channel DR range is not empty")
		verifAssert(c13Defined(in, c.MinDR, true, false), "uplink channel MinDR is a defined uplink data-rate")
		verifAssert(c13Defined(in, c.MaxDR, true, false), "uplink channel MaxDR is a defined uplink data-rate")
	}
	for _, c := range in.downlinkChannels {
		verifAssert(c.MinDR <= c.MaxDR, "downlink channel DR range is not empty")
		verifAssert(c13Defined(in, c.MinDR, false, true), "downlink channel MinDR is a defined downlink data-rate")
		verifAssert(c13Defined(in, c.MaxDR, false, true), "downlink channel MaxDR is a defined downlink data-rate")
	}
	for _, dr := range b.GetEnabledUplinkDataRates() {
		verifAssertKnown("C13-enabled-dr-gap", c13Defined(in, dr, false, false) == false && c13KnownGap(n), c13Defined(in, dr, true, false), "every enabled uplink data-rate is a defined uplink data-rate")
	}
	for dr, row := range in.rx1DataRateTable {
		verifAssert(c13Defined(in, dr, false, false), "every RX1 table row belongs to a defined data-rate")
		for _, r := range row {
			verifAssert(c13Defined(in, r, false, true), "every RX1 table cell is a defined downlink data-rate")
		}
	}
	d := b.GetDefaults()
	verifAssert(c13Defined(in, d.RX2DataRate, false, true), "RX2 default data-rate is a defined downlink data-rate")
	// TX power steps: 0, -2, -4, ... dB
	for i, p := range in.txPowerOffsets {
		verifAssert(p == -2*i, "TX power offset i == -2*i dB")
	}
	verifReach("done")
}

func c13KnownGap(n int) bool { return false }

// Lookup: GetDataRateIndex(dir, GetDataRate(i)) == i in every direction the data-rate supports (both map orders).
func VerifC13_Lookup(n, rep, dt int) {
	b, _, _ := verifBand(n, rep, dt)
	i := verifNondetInt("dr")
	d, err := b.GetDataRate(i)
	if err != nil {
		verifReach("undefined")
		return
	}
	if d.uplink {
		j, err := b.GetDataRateIndex(true, d)
		verifAssert(err == nil, "uplink lookup of a defined uplink data-rate succeeds")
		verifAssert(j == i, "uplink lookup by parameters returns the same index")
	}
	if d.downlink {
		j, err := b.GetDataRateIndex(false, d)
		verifAssert(err == nil, "downlink lookup of a defined downlink data-rate succeeds")
		verifAssert(j == i, "downlink lookup by parameters returns the same index")
	}
	verifAssert(verifOr(d.uplink, d.downlink), "a defined data-rate is usable in at least one direction")
	verifReach("defined")
}

var c13Versions = []string{LoRaWAN_1_0_0, LoRaWAN_1_0_1, LoRaWAN_1_0_2, LoRaWAN_1_0_3, LoRaWAN_1_0_4, LoRaWAN_1_1_0, "9.9.9"}
var c13Revisions = []string{RegParamRevA, RegParamRevB, RegParamRevC, RegParamRevRP002_1_0_0, RegParamRevRP002_1_0_1, RegParamRevRP002_1_0_2, RegParamRevRP002_1_0_3, "RP-unknown"}

// MaxPayload: per (version, revision): M = N + 8, N <= 242, repeater <= non-repeater, sizes monotone in SF;
// unknown strings resolve to the latest table, under which every defined data-rate has a size.
func VerifC13_MaxPayload(n, dt, ver, rev int) {
	bRep, inRep, _ := verifBand(n, 1, dt)
	bNon, inNon, _ := verifBand(n, 0, dt)
	v, r := c13Versions[ver], c13Revisions[rev]
	dr := verifNondetInt("dr")
	psN, errN := bNon.GetMaxPayloadSizeForDataRateIndex(v, r, dr)
	psR, errR := bRep.GetMaxPayloadSizeForDataRateIndex(v, r, dr)
	_, defined := inNon.dataRates[dr]
	if ver == len(c13Versions)-1 && rev == len(c13Revisions)-1 {
		lN, errLN := bNon.GetMaxPayloadSizeForDataRateIndex(latest, latest, dr)
		verifAssert((errN == nil) == (errLN == nil), "unknown version/revision strings resolve to the latest table (same definedness)")
		if errN == nil {
			verifAssert(psN == lN, "unknown version/revision strings resolve to the latest table (same sizes)")
		}
		verifAssert(verifImplies(defined, errN == nil), "under the latest revision every defined data-rate has a maximum payload size (non-repeater)")
		verifAssert(verifImplies(defined, errR == nil), "under the latest revision every defined data-rate has a maximum payload size (repeater)")
	}
	if errN == nil {
		// {0, 0} is the library's "not available under this dwell time" entry
		naN := verifAnd(psN.M == 0, psN.N == 0)
		verifAssertKnown("C13-ism2400-dr2-size", c13KnownSize(n, dr), verifOr(naN, psN.M == psN.N+8), "non-repeater size: M == N + 8")
		verifAssert(psN.N <= 242, "non-repeater size: N <= 242")
		verifAssert(psN.N >= 0, "non-repeater size: N >= 0")
	}
	if errR == nil {
		verifAssert(verifOr(verifAnd(psR.M == 0, psR.N == 0), psR.M == psR.N+8), "repeater size: M == N + 8")
		verifAssert(psR.N <= 242, "repeater size: N <= 242")
		verifAssert(psR.N >= 0, "repeater size: N >= 0")
	}
	if errN == nil && errR == nil {
		verifAssert(psR.N <= psN.N, "repeater-compatible size never exceeds the non-repeater one")
	}
	_ = inRep
	verifReach("done")
}

func c13KnownSize(n, dr int) bool { return false }

// Monotone: at equal bandwidth, a smaller spreading factor never has a smaller size (all versions / revisions).
func VerifC13_Monotone(n, rep, dt, ver, rev int) {
	b, in, _ := verifBand(n, rep, dt)
	v, r := c13Versions[ver], c13Revisions[rev]
	for i := 0; i <= 15; i++ {
		di, ok := in.dataRates[i]
		if !ok || di.Modulation != LoRaModulation {
			continue
		}
		pi, err := b.GetMaxPayloadSizeForDataRateIndex(v, r, i)
		if err != nil {
			continue
		}
		for j := 0; j <= 15; j++ {
			dj, ok := in.dataRates[j]
			if !ok || dj.Modulation != LoRaModulation || dj.Bandwidth != di.Bandwidth || dj.SpreadFactor >= di.SpreadFactor {
				continue
			}
			// compare data-rates of the same table role only (the Regional Parameters list uplink-only and
			// downlink-only data-rates of US915/AU915 with different limits)
			if !((di.uplink && dj.uplink) || (di.downlink && dj.downlink)) {
				continue
			}
			pj, err := b.GetMaxPayloadSizeForDataRateIndex(v, r, j)
			if err != nil {
				continue
			}
			verifAssert(pj.N >= pi.N, "at equal bandwidth the size does not shrink when the spreading factor decreases")
		}
	}
	verifReach("done")
}

// Regional Parameters values that are stated in RP002-1.0.3 (oracle restricted to widely published cells).
type c13RP struct {
	rx2Freq uint32
	rx2DR   int
	chans   []uint32 // default (join) uplink channel frequencies, in order (nil: computed plan, see below)
}

var c13Oracle = map[int]c13RP{
	bEU868:   {869525000, 0, []uint32{868100000, 868300000, 868500000}},
	bCN779:   {786000000, 0, []uint32{779500000, 779700000, 779900000}},
	bEU433:   {434665000, 0, []uint32{433175000, 433375000, 433575000}},
	bAS923:   {923200000, 2, []uint32{923200000, 923400000}},
	bAS923_2: {921400000, 2, []uint32{921400000, 921600000}},
	bAS923_3: {916600000, 2, []uint32{916600000, 916800000}},
	bAS923_4: {917300000, 2, []uint32{917300000, 917500000}},
	bKR920:   {921900000, 0, []uint32{922100000, 922300000, 922500000}},
	bIN865:   {866550000, 2, []uint32{865062500, 865402500, 865985000}},
	bRU864:   {869100000, 0, []uint32{868900000, 869100000}},
	bISM2400: {2423000000, 0, []uint32{2403000000, 2425000000, 2479000000}},
	bUS915:   {923300000, 8, nil},
	bAU915:   {923300000, 8, nil},
	bCN470:   {505300000, 0, nil},
}

func VerifC13_RPValues(n, rep, dt int) {
	b, in, canon := verifBand(n, rep, dt)
	o := c13Oracle[canon]
	d := b.GetDefaults()
	verifAssert(d.RX2Frequency == o.rx2Freq, "RX2 default frequency == Regional Parameters value")
	verifAssert(d.RX2DataRate == o.rx2DR, "RX2 default data-rate == Regional Parameters value")
	if o.chans != nil {
		verifAssert(len(in.uplinkChannels) == len(o.chans), "number of default uplink channels == Regional Parameters")
		for i, f := range o.chans {
			verifAssert(in.uplinkChannels[i].Frequency == f, "default uplink channel frequency == Regional Parameters value")
			verifAssert(in.downlinkChannels[i].Frequency == f, "default downlink channel frequency == Regional Parameters value")
		}
	}
	switch canon {
	case bUS915:
		verifAssert(len(in.uplinkChannels) == 72, "US915: 64 + 8 uplink channels")
		for i := 0; i < 64; i++ {
			verifAssert(in.uplinkChannels[i].Frequency == uint32(902300000+200000*i), "US915: 125 kHz uplink channel i == 902.3 MHz + 200 kHz * i")
		}
		for i := 0; i < 8; i++ {
			verifAssert(in.uplinkChannels[64+i].Frequency == uint32(903000000+1600000*i), "US915: 500 kHz uplink channel i == 903.0 MHz + 1.6 MHz * i")
			verifAssert(in.downlinkChannels[i].Frequency == uint32(923300000+600000*i), "US915: downlink channel i == 923.3 MHz + 600 kHz * i")
		}
	case bAU915:
		verifAssert(len(in.uplinkChannels) == 72, "AU915: 64 + 8 uplink channels")
		for i := 0; i < 64; i++ {
			verifAssert(in.uplinkChannels[i].Frequency == uint32(915200000+200000*i), "AU915: 125 kHz uplink channel i == 915.2 MHz + 200 kHz * i")
		}
		for i := 0; i < 8; i++ {
			verifAssert(in.uplinkChannels[64+i].Frequency == uint32(915900000+1600000*i), "AU915: 500 kHz uplink channel i == 915.9 MHz + 1.6 MHz * i")
			verifAssert(in.downlinkChannels[i].Frequency == uint32(923300000+600000*i), "AU915: downlink channel i == 923.3 MHz + 600 kHz * i")
		}
	case bCN470:
		verifAssert(len(in.uplinkChannels) == 96, "CN470: 96 uplink channels")
		for i := 0; i < 96; i++ {
			verifAssert(in.uplinkChannels[i].Frequency == uint32(470300000+200000*i), "CN470: uplink channel i == 470.3 MHz + 200 kHz * i")
		}
		verifAssert(len(in.downlinkChannels) == 48, "CN470: 48 downlink channels")
		for i := 0; i < 48; i++ {
			verifAssert(in.downlinkChannels[i].Frequency == uint32(500300000+200000*i), "CN470: downlink channel i == 500.3 MHz + 200 kHz * i")
		}
	}
	// LoRa data-rate definitions shared by the 125 kHz sub-GHz plans: DR0..DR5 = SF12..SF7 / 125 kHz
	switch canon {
	case bEU868, bCN779, bEU433, bAS923, bAS923_2, bAS923_3, bAS923_4, bKR920, bIN865, bRU864, bCN470:
		for i := 0; i <= 5; i++ {
			dr, ok := in.dataRates[i]
			verifAssert(ok, "DR0..DR5 defined")
			verifAssert(dr.Modulation == LoRaModulation && dr.SpreadFactor == 12-i && dr.Bandwidth == 125, "DRi == LoRa SF(12-i) / 125 kHz")
		}
	case bUS915:
		for i := 0; i <= 3; i++ {
			dr := in.dataRates[i]
			verifAssert(dr.Modulation == LoRaModulation && dr.SpreadFactor == 10-i && dr.Bandwidth == 125, "US915 DRi == LoRa SF(10-i) / 125 kHz")
		}
		for i := 8; i <= 13; i++ {
			dr := in.dataRates[i]
			verifAssert(dr.Modulation == LoRaModulation && dr.SpreadFactor == 20-i && dr.Bandwidth == 500, "US915 DR8..13 == LoRa SF12..7 / 500 kHz")
		}
	case bAU915:
		for i := 0; i <= 5; i++ {
			dr := in.dataRates[i]
			verifAssert(dr.Modulation == LoRaModulation && dr.SpreadFactor == 12-i && dr.Bandwidth == 125, "AU915 DRi == LoRa SF(12-i) / 125 kHz")
		}
		for i := 8; i <= 13; i++ {
			dr := in.dataRates[i]
			verifAssert(dr.Modulation == LoRaModulation && dr.SpreadFactor == 20-i && dr.Bandwidth == 500, "AU915 DR8..13 == LoRa SF12..7 / 500 kHz")
		}
	case bISM2400:
		for i := 0; i <= 7; i++ {
			dr := in.dataRates[i]
			verifAssert(dr.Modulation == LoRaModulation && dr.SpreadFactor == 12-i && dr.Bandwidth == 812, "ISM2400 DRi == LoRa SF(12-i) / 812 kHz")
		}
	}
	_ = lorawan.DwellTimeNoLimit
	verifReach("done")
}
