package band

import (
	"time"

	"github.com/brocaar/lorawan"
)

// C12: RX1 / RX2 / ping-slot parameters are consistent and follow the regional rules.

// specRX1: the regional rule where it is a formula (DESIGN.md appendix C); ok=false where no formula is stated.
func specRX1(canon int, dwell400 bool, dr, off int) (int, bool) {
	switch canon {
	case bEU868:
		if dr >= 0 && dr <= 7 && off >= 0 && off <= 5 {
			return verifMaxInt(dr-off, 0), true
		}
		// LR-FHSS: DR8/DR10 answer like DR1, DR9/DR11 like DR2
		if (dr == 8 || dr == 10) && off >= 0 && off <= 5 {
			return verifMaxInt(1-off, 0), true
		}
		if (dr == 9 || dr == 11) && off >= 0 && off <= 5 {
			return verifMaxInt(2-off, 0), true
		}
	case bCN779, bEU433, bRU864, bISM2400:
		if dr >= 0 && dr <= 7 && off >= 0 && off <= 5 {
			return verifMaxInt(dr-off, 0), true
		}
	case bCN470, bKR920:
		if dr >= 0 && dr <= 5 && off >= 0 && off <= 5 {
			return verifMaxInt(dr-off, 0), true
		}
	case bIN865:
		if dr >= 0 && dr <= 5 && off >= 0 && off <= 5 {
			return verifMaxInt(dr-off, 0), true
		}
		if dr >= 0 && dr <= 5 && (off == 6 || off == 7) {
			return verifMinInt(dr+off-5, 5), true
		}
		// DR7 (FSK): DR6 is RFU, so DR7-1 is DR5
		if dr == 7 && off >= 0 && off <= 5 {
			return verifMinInt(7-off, verifIteInt(off == 0, 7, 5)), true
		}
	case bAS923, bAS923_2, bAS923_3, bAS923_4:
		if dr >= 0 && dr <= 7 && off >= 0 && off <= 7 {
			eff := []int{0, 1, 2, 3, 4, 5, -1, -2}[off]
			floor := 0
			if dwell400 {
				floor = 2
			}
			return verifMinInt(5, verifMaxInt(dr-eff, floor)), true
		}
	case bUS915:
		if dr >= 0 && dr <= 4 && off >= 0 && off <= 3 {
			return verifMaxInt(verifMinInt(10+dr-off, 13), 8), true
		}
	case bAU915:
		if dr >= 0 && dr <= 6 && off >= 0 && off <= 5 {
			return verifMaxInt(verifMinInt(8+dr-off, 13), 8), true
		}
	}
	return 0, false
}

// specPositiveOffsets: number of offsets 0..k-1 that reduce the data-rate (the region's positive offsets).
func specPositiveOffsets(canon int) int {
	switch canon {
	case bUS915:
		return 4
	}
	return 6
}

// RX1 data-rate: one path per uplink data-rate row (case split on the table key), offset any int.
func VerifC12_RX1DR(n, rep, dt int) {
	b, in, canon := verifBand(n, rep, dt)
	dr := verifNondetInt("uplinkDR")
	off := verifNondetInt("rx1DROffset")
	got, err := b.GetRX1DataRateIndex(dr, off)
	if err != nil {
		verifReach("rejected")
		return
	}
	verifAssertKnown("C12-rx1-undefined-result", c12KnownCell(canon, dr, off), verifIsDownlinkDR(in, got), "RX1 data-rate of an accepted (DR, offset) pair is a defined downlink data-rate of the band")
	// formula, for concrete rows / columns (dr and off are decided by the path in most bands; enumerate to be independent of that)
	for d := 0; d <= 15; d++ {
		for o := 0; o <= 7; o++ {
			want, ok := specRX1(canon, dt == 1, d, o)
			if !ok {
				continue
			}
			verifAssertKnown("C12-rx1-formula", c12KnownCell(canon, d, o), verifImplies(verifAnd(dr == d, off == o), got == want), "RX1 data-rate == regional rule (max(DR - offset, floor) or the published variant)")
		}
	}
	// monotone over the positive offsets: the next offset gives the same or the next lower defined downlink data-rate
	pos := specPositiveOffsets(canon)
	if verifAnd(off >= 0, off < pos-1) {
		next, err2 := b.GetRX1DataRateIndex(dr, off+1)
		if err2 == nil {
			verifAssertKnown("C12-rx1-monotone", c12KnownCell(canon, dr, off+1), next <= got, "RX1 data-rate never increases with the offset")
			between := false
			for i := 0; i <= 15; i++ {
				d, def := in.dataRates[i]
				if def && d.downlink {
					between = verifOr(between, verifAnd(next < i, i < got))
				}
			}
			verifAssertKnown("C12-rx1-monotone", c12KnownCell(canon, dr, off+1), !between, "RX1 data-rate moves down by at most one defined downlink data-rate per offset unit")
		}
	}
	verifReach("accepted")
}

// cells with recorded findings (see known_findings.json); false everywhere once they are fixed
func c12KnownCell(canon, dr, off int) bool {
	return false
}

func c12Rule(canon, i int) int {
	switch canon {
	case bUS915, bAU915:
		return i % 8
	case bCN470:
		return i % 48
	}
	return i
}

// RX1 channel / frequency for every existing uplink channel (symbolic index).
func VerifC12_RX1Chan(n, rep, dt int) {
	b, in, canon := verifBand(n, rep, dt)
	nUp := len(in.uplinkChannels)
	i := verifNondetInt("uplinkChannel")
	verifAssume(i >= 0)
	verifAssume(i < nUp)
	want := c12Rule(canon, i)
	got, err := b.GetRX1ChannelIndexForUplinkChannelIndex(i)
	verifAssert(err == nil, "RX1 channel defined for every uplink channel")
	verifAssert(got == want, "RX1 channel == regional rule (same channel / index mod 8 / index mod 48)")
	verifAssert(verifAnd(got >= 0, got < len(in.downlinkChannels)), "RX1 channel is an existing downlink channel")
	up, err := b.GetUplinkChannel(i)
	verifAssert(err == nil, "uplink channel exists")
	f, err := b.GetRX1FrequencyForUplinkFrequency(up.Frequency)
	verifAssert(err == nil, "RX1 frequency defined for the frequency of every uplink channel")
	down, err := b.GetDownlinkChannel(want)
	verifAssert(err == nil, "downlink channel of the rule exists")
	// two uplink channels may share a frequency (e.g. 125/500 kHz overlap): the frequency lookup may then
	// resolve to the first channel with that frequency; compare with the rule applied to that one
	first := -1
	for k := nUp - 1; k >= 0; k-- {
		if in.uplinkChannels[k].custom {
			continue
		}
		first = verifIteInt(in.uplinkChannels[k].Frequency == up.Frequency, k, first)
	}
	down2, err2 := b.GetDownlinkChannel(c12Rule(canon, first))
	verifAssert(err2 == nil, "downlink channel of the rule exists (first channel with that frequency)")
	verifAssert(verifOr(f == down.Frequency, f == down2.Frequency), "RX1 frequency from the uplink frequency == frequency of the RX1 channel from the channel index")
	verifReach("done")
}

var specPingSlotFixed = map[int]uint32{
	bEU868: 869525000, bCN779: 785000000, bEU433: 434665000, bAS923: 923400000, bAS923_2: 921600000, bAS923_3: 916800000, bAS923_4: 917500000,
	bKR920: 923100000, bIN865: 866550000, bRU864: 868900000, bISM2400: 2424000000,
}

func VerifC12_PingSlot(n, rep, dt int) {
	b, in, canon := verifBand(n, rep, dt)
	addr := lorawan.DevAddr{verifNondetU8("devaddr"), verifNondetU8("devaddr"), verifNondetU8("devaddr"), verifNondetU8("devaddr")}
	bt := time.Duration(verifNondetU64("beaconTime") >> 1) // any non-negative duration
	f, err := b.GetPingSlotFrequency(addr, bt)
	verifAssert(err == nil, "ping-slot frequency defined")
	if fixed, ok := specPingSlotFixed[canon]; ok {
		verifAssert(f == fixed, "ping-slot frequency == the region's fixed beacon / ping-slot frequency")
		verifReach("fixed")
		return
	}
	a := uint64(addr[0])<<24 | uint64(addr[1])<<16 | uint64(addr[2])<<8 | uint64(addr[3])
	ch := int((a + uint64(bt)/128000000000) % 8)
	if canon == bCN470 {
		verifAssert(f == uint32(508300000+200000*ch), "CN470 ping-slot frequency == 508.3 MHz + 200 kHz * ((DevAddr + floor(beaconTime/128 s)) mod 8)")
	} else {
		verifAssert(ch < len(in.downlinkChannels), "hopping channel exists")
		verifAssert(f == in.downlinkChannels[ch].Frequency, "ping-slot frequency == downlink channel (DevAddr + floor(beaconTime/128 s)) mod 8")
	}
	verifReach("hopping")
}

// RX2 defaults refer to a defined downlink data-rate.
func VerifC12_RX2(n, rep, dt int) {
	b, in, _ := verifBand(n, rep, dt)
	d := b.GetDefaults()
	verifAssert(verifIsDownlinkDR(in, d.RX2DataRate), "RX2 default data-rate is a defined downlink data-rate")
	verifAssert(d.RX2Frequency != 0, "RX2 default frequency set")
	verifReach("done")
}

// No accessor panics for any int argument.
func VerifC12_NoPanic(n, rep, dt int) {
	b, _, _ := verifBand(n, rep, dt)
	x := verifNondetInt("arg")
	y := verifNondetInt("arg2")
	b.GetRX1DataRateIndex(x, y)
	b.GetTXPowerOffset(x)
	b.GetDataRate(x)
	b.GetMaxPayloadSizeForDataRateIndex(LoRaWAN_1_0_3, RegParamRevA, x)
	b.GetUplinkChannel(x)
	b.GetDownlinkChannel(x)
	verifReach("done")
}
