package band

// C10 (band part): band objects obtained from separate GetConfig calls share no mutable state.

func c10Snapshot(in *band) ([]Channel, []Channel) {
	return append([]Channel(nil), in.uplinkChannels...), append([]Channel(nil), in.downlinkChannels...)
}

// steps: number of mutations applied to the first instance (each: AddChannel / Disable / Enable with symbolic arguments).
func VerifC10_BandSharing(n, steps int) {
	b1, in1, _ := verifBand(n, 0, 0)
	_, in2, _ := verifBand(n, 0, 0)
	up2, down2 := c10Snapshot(in2)
	dr2 := len(in2.dataRates)
	for s := 0; s < steps; s++ {
		op := verifNondetU8("op") % 3
		i := verifNondetInt("index")
		switch op {
		case 0:
			b1.AddChannel(verifNondetU32("freq"), verifNondetInt("minDR"), verifNondetInt("maxDR"))
		case 1:
			b1.DisableUplinkChannelIndex(i)
		default:
			b1.EnableUplinkChannelIndex(i)
		}
	}
	_ = in1
	// a third instance created after the mutations is pristine as well
	_, in3, _ := verifBand(n, 0, 0)
	for _, in := range []*band{in2, in3} {
		verifAssert(len(in.uplinkChannels) == len(up2), "another instance keeps its number of uplink channels")
		verifAssert(len(in.downlinkChannels) == len(down2), "another instance keeps its number of downlink channels")
		verifAssert(len(in.dataRates) == dr2, "another instance keeps its data-rate table")
		for k := range up2 {
			verifAssert(in.uplinkChannels[k] == up2[k], "mutating one band instance does not change an uplink channel of another instance")
		}
		for k := range down2 {
			verifAssert(in.downlinkChannels[k] == down2[k], "mutating one band instance does not change a downlink channel of another instance")
		}
	}
	verifNoGlobalWritesExcept("") // C10: no hidden package-level state is written
	verifReach("done")
}
