package multicastsetup

import "github.com/brocaar/lorawan"

// C18 (remote multicast setup, TS005-1.0.0): every command whose fields lie within their specified bit
// widths encodes to exactly Size() bytes and decodes back to the same command; concatenated commands
// decode to the same sequence; encoding never panics; the multicast keys equal the TS005 AES derivations.
//
// Command tables (idx per direction; idx == CID):
//   up=1 (device -> server)                 up=0 (server -> device)
//     0 PackageVersionAns  (0x00)             0 PackageVersionReq  (0x00, no payload)
//     1 McGroupStatusAns   (0x01)             1 McGroupStatusReq   (0x01)
//     2 McGroupSetupAns    (0x02)             2 McGroupSetupReq    (0x02)
//     3 McGroupDeleteAns   (0x03)             3 McGroupDeleteReq   (0x03)
//     4 McClassCSessionAns (0x04)             4 McClassCSessionReq (0x04)
//     5 McClassBSessionAns (0x05)             5 McClassBSessionReq (0x05)
//
// Structural variants
//   McGroupStatusAns (1,1,v): v = number of items, 0..4 (RoundTrip/Seq: AnsGroupMask symbolic with exactly v
//        bits set; NoPanic: AnsGroupMask unconstrained, and v = 5 is also valid there: 5 items, refused with an error)
//   McClassCSessionAns (1,4,v), McClassBSessionAns (1,5,v):
//        RoundTrip/Seq: v = 0: no error flag, TimeToStart present (24 bit); v = 1: at least one error flag, TimeToStart nil
//        NoPanic:       v = 0: TimeToStart non-nil; v = 1: TimeToStart nil; error flags unconstrained in both
//   every other command: v = 0 only.
//
// Valid shape tuples
//   VerifC18_RoundTrip(up, idx, variant):
//        (0,0,0) (0,1,0) (0,2,0) (0,3,0) (0,4,0) (0,5,0)
//        (1,0,0) (1,1,0) (1,1,1) (1,1,2) (1,1,3) (1,1,4) (1,2,0) (1,3,0) (1,4,0) (1,4,1) (1,5,0) (1,5,1)
//   VerifC18_NoPanic(up, idx, variant): the same tuples plus (1,1,5)
//   VerifC18_Seq(up, i1, i2): i1, i2 = -1 (no command) or idx + 100*variant, i.e.
//        up=0: -1, 0..5 ; up=1: -1, 0, 1, 101, 201, 301, 401, 2, 3, 4, 104, 5, 105
//   VerifC18_Keys(which): 0 GetMcRootKeyForGenAppKey, 1 GetMcRootKeyForAppKey, 2 GetMcKEKey, 3 GetMcAppSKey, 4 GetMcNetSKey
// Any other tuple ends in verifReach("n/a").
//
// Field widths (TS005): McGroupID 2 bits everywhere; McGroupStatusAns.Status.NbTotalGroups 3 bits, AnsGroupMask /
// McGroupStatusReq.CmdMask.RegGroupMask 4 x 1 bit; McClassCSessionReq.SessionTimeOut.TimeOut 4 bits;
// McClassBSessionReq.TimeOutPeriodicity.TimeOut 4 bits, .Periodicity 3 bits; DLFrequency 24 bits in units of
// 100 Hz (the Go field is in Hz: a multiple of 100 below 2^24*100); DR 8 bits (one byte on the wire);
// TimeToStart 24 bits; status flags 1 bit each; everything else uses its whole Go type.

func c18CID(up, idx int) (CID, int, bool) {
	if idx < 0 || idx > 5 {
		return 0, 0, false
	}
	nvar := 1
	if up != 0 {
		switch idx {
		case 1:
			nvar = 5
		case 4, 5:
			nvar = 2
		}
	}
	return CID(idx), nvar, true
}

// c18U8 draws a uint8 field: within its bit width (mask) or, full, over the whole Go type.
func c18U8(name string, mask uint8, full bool) uint8 {
	v := verifNondetU8(name)
	if full {
		return v
	}
	return v & mask
}

// c18Freq draws a DLFrequency in Hz: a 24-bit count of 100 Hz steps, or (full) any uint32.
func c18Freq(name string, full bool) uint32 {
	v := verifNondetU32(name)
	if full {
		return v
	}
	return (v & 0xffffff) * 100
}

func c18Mask4(name string) [4]bool {
	var m [4]bool
	for i := range m {
		m[i] = verifNondetBool(name)
	}
	return m
}

func c18DevAddr(name string) lorawan.DevAddr {
	return lorawan.DevAddr(verifNondet4(name))
}

// c18Build builds command idx of direction up with symbolic field values (nondet names prefixed by pfx).
func c18Build(up, idx, variant int, pfx string, full bool) (Command, bool) {
	cid, nvar, ok := c18CID(up, idx)
	if up != 0 && idx == 1 && full {
		nvar = 6
	}
	if !ok || variant < 0 || variant >= nvar {
		return Command{}, false
	}
	cmd := Command{CID: cid}
	if up != 0 {
		switch idx {
		case 0:
			cmd.Payload = &PackageVersionAnsPayload{
				PackageIdentifier: verifNondetU8(pfx + "PackageVersionAns.PackageIdentifier"),
				PackageVersion:    verifNondetU8(pfx + "PackageVersionAns.PackageVersion"),
			}
		case 1:
			p := &McGroupStatusAnsPayload{}
			p.Status.NbTotalGroups = c18U8(pfx+"McGroupStatusAns.Status.NbTotalGroups", 0x07, full)
			p.Status.AnsGroupMask = c18Mask4(pfx + "McGroupStatusAns.Status.AnsGroupMask")
			if !full {
				n := 0
				for _, m := range p.Status.AnsGroupMask {
					n += verifIteInt(m, 1, 0)
				}
				verifAssume(n == variant) // one item per answered group
			}
			for i := 0; i < variant; i++ {
				p.Items = append(p.Items, McGroupStatusAnsPayloadItem{
					McGroupID: c18U8(pfx+"McGroupStatusAns.Items.McGroupID", 0x03, full),
					McAddr:    c18DevAddr(pfx + "McGroupStatusAns.Items.McAddr"),
				})
			}
			cmd.Payload = p
		case 2:
			cmd.Payload = &McGroupSetupAnsPayload{
				McGroupIDHeader: McGroupSetupAnsPayloadMcGroupIDHeader{
					IDError:   verifNondetBool(pfx + "McGroupSetupAns.McGroupIDHeader.IDError"),
					McGroupID: c18U8(pfx+"McGroupSetupAns.McGroupIDHeader.McGroupID", 0x03, full),
				},
			}
		case 3:
			cmd.Payload = &McGroupDeleteAnsPayload{
				McGroupIDHeader: McGroupDeleteAnsPayloadMcGroupIDHeader{
					McGroupUndefined: verifNondetBool(pfx + "McGroupDeleteAns.McGroupIDHeader.McGroupUndefined"),
					McGroupID:        c18U8(pfx+"McGroupDeleteAns.McGroupIDHeader.McGroupID", 0x03, full),
				},
			}
		case 4:
			p := &McClassCSessionAnsPayload{}
			p.StatusAndMcGroupID.McGroupID = c18U8(pfx+"McClassCSessionAns.StatusAndMcGroupID.McGroupID", 0x03, full)
			if full || variant == 1 {
				p.StatusAndMcGroupID.McGroupUndefined = verifNondetBool(pfx + "McClassCSessionAns.StatusAndMcGroupID.McGroupUndefined")
				p.StatusAndMcGroupID.FreqError = verifNondetBool(pfx + "McClassCSessionAns.StatusAndMcGroupID.FreqError")
				p.StatusAndMcGroupID.DRError = verifNondetBool(pfx + "McClassCSessionAns.StatusAndMcGroupID.DRError")
			}
			if !full && variant == 1 {
				s := p.StatusAndMcGroupID
				verifAssume(verifOr(s.McGroupUndefined, verifOr(s.FreqError, s.DRError)))
			}
			if variant == 0 {
				tts := verifNondetU32(pfx + "McClassCSessionAns.TimeToStart")
				if !full {
					tts &= 0xffffff
				}
				p.TimeToStart = &tts
			}
			cmd.Payload = p
		case 5:
			p := &McClassBSessionAnsPayload{}
			p.StatusAndMcGroupID.McGroupID = c18U8(pfx+"McClassBSessionAns.StatusAndMcGroupID.McGroupID", 0x03, full)
			if full || variant == 1 {
				p.StatusAndMcGroupID.McGroupUndefined = verifNondetBool(pfx + "McClassBSessionAns.StatusAndMcGroupID.McGroupUndefined")
				p.StatusAndMcGroupID.FreqError = verifNondetBool(pfx + "McClassBSessionAns.StatusAndMcGroupID.FreqError")
				p.StatusAndMcGroupID.DRError = verifNondetBool(pfx + "McClassBSessionAns.StatusAndMcGroupID.DRError")
			}
			if !full && variant == 1 {
				s := p.StatusAndMcGroupID
				verifAssume(verifOr(s.McGroupUndefined, verifOr(s.FreqError, s.DRError)))
			}
			if variant == 0 {
				tts := verifNondetU32(pfx + "McClassBSessionAns.TimeToStart")
				if !full {
					tts &= 0xffffff
				}
				p.TimeToStart = &tts
			}
			cmd.Payload = p
		}
		return cmd, true
	}
	switch idx {
	case 0:
		// PackageVersionReq: CID only
	case 1:
		cmd.Payload = &McGroupStatusReqPayload{
			CmdMask: McGroupStatusReqPayloadCmdMask{
				RegGroupMask: c18Mask4(pfx + "McGroupStatusReq.CmdMask.RegGroupMask"),
			},
		}
	case 2:
		cmd.Payload = &McGroupSetupReqPayload{
			McGroupIDHeader: McGroupSetupReqPayloadMcGroupIDHeader{
				McGroupID: c18U8(pfx+"McGroupSetupReq.McGroupIDHeader.McGroupID", 0x03, full),
			},
			McAddr:         c18DevAddr(pfx + "McGroupSetupReq.McAddr"),
			McKeyEncrypted: verifNondetKey(pfx + "McGroupSetupReq.McKeyEncrypted"),
			MinMcFCnt:      verifNondetU32(pfx + "McGroupSetupReq.MinMcFCnt"),
			MaxMcFCnt:      verifNondetU32(pfx + "McGroupSetupReq.MaxMcFCnt"),
		}
	case 3:
		cmd.Payload = &McGroupDeleteReqPayload{
			McGroupIDHeader: McGroupDeleteReqPayloadMcGroupIDHeader{
				McGroupID: c18U8(pfx+"McGroupDeleteReq.McGroupIDHeader.McGroupID", 0x03, full),
			},
		}
	case 4:
		cmd.Payload = &McClassCSessionReqPayload{
			McGroupIDHeader: McClassCSessionReqPayloadMcGroupIDHeader{
				McGroupID: c18U8(pfx+"McClassCSessionReq.McGroupIDHeader.McGroupID", 0x03, full),
			},
			SessionTime: verifNondetU32(pfx + "McClassCSessionReq.SessionTime"),
			SessionTimeOut: McClassCSessionReqPayloadSessionTimeOut{
				TimeOut: c18U8(pfx+"McClassCSessionReq.SessionTimeOut.TimeOut", 0x0f, full),
			},
			DLFrequency: c18Freq(pfx+"McClassCSessionReq.DLFrequency", full),
			DR:          verifNondetU8(pfx + "McClassCSessionReq.DR"),
		}
	case 5:
		cmd.Payload = &McClassBSessionReqPayload{
			McGroupIDHeader: McClassBSessionReqPayloadMcGroupIDHeader{
				McGroupID: c18U8(pfx+"McClassBSessionReq.McGroupIDHeader.McGroupID", 0x03, full),
			},
			SessionTime: verifNondetU32(pfx + "McClassBSessionReq.SessionTime"),
			TimeOutPeriodicity: McClassBSessionReqPayloadTimeOutPeriodicity{
				Periodicity: c18U8(pfx+"McClassBSessionReq.TimeOutPeriodicity.Periodicity", 0x07, full),
				TimeOut:     c18U8(pfx+"McClassBSessionReq.TimeOutPeriodicity.TimeOut", 0x0f, full),
			},
			DLFrequency: c18Freq(pfx+"McClassBSessionReq.DLFrequency", full),
			DR:          verifNondetU8(pfx + "McClassBSessionReq.DR"),
		}
	}
	return cmd, true
}

// c18Same asserts that got is the same command as want (CID, payload type, every field).
func c18Same(want, got Command) {
	verifAssert(got.CID == want.CID, "decoded CID == encoded CID")
	switch w := want.Payload.(type) {
	case nil:
		verifAssert(got.Payload == nil, "a command without payload decodes without payload")
	case *PackageVersionAnsPayload:
		g, ok := got.Payload.(*PackageVersionAnsPayload)
		verifAssert(ok, "PackageVersionAns: decoded payload has the encoded type")
		if !ok {
			return
		}
		verifAssert(g.PackageIdentifier == w.PackageIdentifier, "PackageVersionAns.PackageIdentifier decodes back unchanged")
		verifAssert(g.PackageVersion == w.PackageVersion, "PackageVersionAns.PackageVersion decodes back unchanged")
	case *McGroupStatusAnsPayload:
		g, ok := got.Payload.(*McGroupStatusAnsPayload)
		verifAssert(ok, "McGroupStatusAns: decoded payload has the encoded type")
		if !ok {
			return
		}
		verifAssert(g.Status.NbTotalGroups == w.Status.NbTotalGroups, "McGroupStatusAns.Status.NbTotalGroups decodes back unchanged")
		for i := range w.Status.AnsGroupMask {
			verifAssert(g.Status.AnsGroupMask[i] == w.Status.AnsGroupMask[i], "McGroupStatusAns.Status.AnsGroupMask decodes back unchanged")
		}
		verifAssert(len(g.Items) == len(w.Items), "McGroupStatusAns.Items: same number of items")
		if len(g.Items) != len(w.Items) {
			return
		}
		for i := range w.Items {
			verifAssert(g.Items[i].McGroupID == w.Items[i].McGroupID, "McGroupStatusAns.Items.McGroupID decodes back unchanged")
			verifAssert(verifBytesEq(g.Items[i].McAddr[:], w.Items[i].McAddr[:]), "McGroupStatusAns.Items.McAddr decodes back unchanged")
		}
	case *McGroupSetupAnsPayload:
		g, ok := got.Payload.(*McGroupSetupAnsPayload)
		verifAssert(ok, "McGroupSetupAns: decoded payload has the encoded type")
		if !ok {
			return
		}
		verifAssert(g.McGroupIDHeader.IDError == w.McGroupIDHeader.IDError, "McGroupSetupAns.McGroupIDHeader.IDError decodes back unchanged")
		verifAssert(g.McGroupIDHeader.McGroupID == w.McGroupIDHeader.McGroupID, "McGroupSetupAns.McGroupIDHeader.McGroupID decodes back unchanged")
	case *McGroupDeleteAnsPayload:
		g, ok := got.Payload.(*McGroupDeleteAnsPayload)
		verifAssert(ok, "McGroupDeleteAns: decoded payload has the encoded type")
		if !ok {
			return
		}
		verifAssert(g.McGroupIDHeader.McGroupUndefined == w.McGroupIDHeader.McGroupUndefined, "McGroupDeleteAns.McGroupIDHeader.McGroupUndefined decodes back unchanged")
		verifAssert(g.McGroupIDHeader.McGroupID == w.McGroupIDHeader.McGroupID, "McGroupDeleteAns.McGroupIDHeader.McGroupID decodes back unchanged")
	case *McClassCSessionAnsPayload:
		g, ok := got.Payload.(*McClassCSessionAnsPayload)
		verifAssert(ok, "McClassCSessionAns: decoded payload has the encoded type")
		if !ok {
			return
		}
		verifAssert(g.StatusAndMcGroupID.McGroupUndefined == w.StatusAndMcGroupID.McGroupUndefined, "McClassCSessionAns.StatusAndMcGroupID.McGroupUndefined decodes back unchanged")
		verifAssert(g.StatusAndMcGroupID.FreqError == w.StatusAndMcGroupID.FreqError, "McClassCSessionAns.StatusAndMcGroupID.FreqError decodes back unchanged")
		verifAssert(g.StatusAndMcGroupID.DRError == w.StatusAndMcGroupID.DRError, "McClassCSessionAns.StatusAndMcGroupID.DRError decodes back unchanged")
		verifAssert(g.StatusAndMcGroupID.McGroupID == w.StatusAndMcGroupID.McGroupID, "McClassCSessionAns.StatusAndMcGroupID.McGroupID decodes back unchanged")
		verifAssert((g.TimeToStart == nil) == (w.TimeToStart == nil), "McClassCSessionAns.TimeToStart is present exactly when it was encoded")
		if g.TimeToStart != nil && w.TimeToStart != nil {
			verifAssert(*g.TimeToStart == *w.TimeToStart, "McClassCSessionAns.TimeToStart decodes back unchanged")
		}
	case *McClassBSessionAnsPayload:
		g, ok := got.Payload.(*McClassBSessionAnsPayload)
		verifAssert(ok, "McClassBSessionAns: decoded payload has the encoded type")
		if !ok {
			return
		}
		verifAssert(g.StatusAndMcGroupID.McGroupUndefined == w.StatusAndMcGroupID.McGroupUndefined, "McClassBSessionAns.StatusAndMcGroupID.McGroupUndefined decodes back unchanged")
		verifAssert(g.StatusAndMcGroupID.FreqError == w.StatusAndMcGroupID.FreqError, "McClassBSessionAns.StatusAndMcGroupID.FreqError decodes back unchanged")
		verifAssert(g.StatusAndMcGroupID.DRError == w.StatusAndMcGroupID.DRError, "McClassBSessionAns.StatusAndMcGroupID.DRError decodes back unchanged")
		verifAssert(g.StatusAndMcGroupID.McGroupID == w.StatusAndMcGroupID.McGroupID, "McClassBSessionAns.StatusAndMcGroupID.McGroupID decodes back unchanged")
		verifAssert((g.TimeToStart == nil) == (w.TimeToStart == nil), "McClassBSessionAns.TimeToStart is present exactly when it was encoded")
		if g.TimeToStart != nil && w.TimeToStart != nil {
			verifAssert(*g.TimeToStart == *w.TimeToStart, "McClassBSessionAns.TimeToStart decodes back unchanged")
		}
	case *McGroupStatusReqPayload:
		g, ok := got.Payload.(*McGroupStatusReqPayload)
		verifAssert(ok, "McGroupStatusReq: decoded payload has the encoded type")
		if !ok {
			return
		}
		for i := range w.CmdMask.RegGroupMask {
			verifAssert(g.CmdMask.RegGroupMask[i] == w.CmdMask.RegGroupMask[i], "McGroupStatusReq.CmdMask.RegGroupMask decodes back unchanged")
		}
	case *McGroupSetupReqPayload:
		g, ok := got.Payload.(*McGroupSetupReqPayload)
		verifAssert(ok, "McGroupSetupReq: decoded payload has the encoded type")
		if !ok {
			return
		}
		verifAssert(g.McGroupIDHeader.McGroupID == w.McGroupIDHeader.McGroupID, "McGroupSetupReq.McGroupIDHeader.McGroupID decodes back unchanged")
		verifAssert(verifBytesEq(g.McAddr[:], w.McAddr[:]), "McGroupSetupReq.McAddr decodes back unchanged")
		verifAssert(verifBytesEq(g.McKeyEncrypted[:], w.McKeyEncrypted[:]), "McGroupSetupReq.McKeyEncrypted decodes back unchanged")
		verifAssert(g.MinMcFCnt == w.MinMcFCnt, "McGroupSetupReq.MinMcFCnt decodes back unchanged")
		verifAssert(g.MaxMcFCnt == w.MaxMcFCnt, "McGroupSetupReq.MaxMcFCnt decodes back unchanged")
	case *McGroupDeleteReqPayload:
		g, ok := got.Payload.(*McGroupDeleteReqPayload)
		verifAssert(ok, "McGroupDeleteReq: decoded payload has the encoded type")
		if !ok {
			return
		}
		verifAssert(g.McGroupIDHeader.McGroupID == w.McGroupIDHeader.McGroupID, "McGroupDeleteReq.McGroupIDHeader.McGroupID decodes back unchanged")
	case *McClassCSessionReqPayload:
		g, ok := got.Payload.(*McClassCSessionReqPayload)
		verifAssert(ok, "McClassCSessionReq: decoded payload has the encoded type")
		if !ok {
			return
		}
		verifAssert(g.McGroupIDHeader.McGroupID == w.McGroupIDHeader.McGroupID, "McClassCSessionReq.McGroupIDHeader.McGroupID decodes back unchanged")
		verifAssert(g.SessionTime == w.SessionTime, "McClassCSessionReq.SessionTime decodes back unchanged")
		verifAssert(g.SessionTimeOut.TimeOut == w.SessionTimeOut.TimeOut, "McClassCSessionReq.SessionTimeOut.TimeOut decodes back unchanged")
		verifAssert(g.DLFrequency == w.DLFrequency, "McClassCSessionReq.DLFrequency decodes back unchanged")
		verifAssert(g.DR == w.DR, "McClassCSessionReq.DR decodes back unchanged")
	case *McClassBSessionReqPayload:
		g, ok := got.Payload.(*McClassBSessionReqPayload)
		verifAssert(ok, "McClassBSessionReq: decoded payload has the encoded type")
		if !ok {
			return
		}
		verifAssert(g.McGroupIDHeader.McGroupID == w.McGroupIDHeader.McGroupID, "McClassBSessionReq.McGroupIDHeader.McGroupID decodes back unchanged")
		verifAssert(g.SessionTime == w.SessionTime, "McClassBSessionReq.SessionTime decodes back unchanged")
		verifAssert(g.TimeOutPeriodicity.Periodicity == w.TimeOutPeriodicity.Periodicity, "McClassBSessionReq.TimeOutPeriodicity.Periodicity decodes back unchanged")
		verifAssert(g.TimeOutPeriodicity.TimeOut == w.TimeOutPeriodicity.TimeOut, "McClassBSessionReq.TimeOutPeriodicity.TimeOut decodes back unchanged")
		verifAssert(g.DLFrequency == w.DLFrequency, "McClassBSessionReq.DLFrequency decodes back unchanged")
		verifAssert(g.DR == w.DR, "McClassBSessionReq.DR decodes back unchanged")
	default:
		verifAssert(false, "harness: unknown payload type")
	}
}

// RoundTrip: one command, every field within its specified bit width.
func VerifC18_RoundTrip(up, idx, variant int) {
	cmd, ok := c18Build(up, idx, variant, "", false)
	if !ok {
		verifReach("n/a")
		return
	}
	b, err := cmd.MarshalBinary()
	verifAssert(err == nil, "a command whose fields lie within their bit widths encodes without error")
	if err != nil {
		verifReach("encode-error")
		return
	}
	verifAssert(len(b) == cmd.Size(), "encoded length == Command.Size()")
	if cmd.Payload != nil {
		verifAssert(len(b) == cmd.Payload.Size()+1, "encoded length == payload Size() + 1")
	} else {
		verifAssert(len(b) == 1, "a command without payload encodes to its CID byte")
	}
	var got Command
	err = got.UnmarshalBinary(up != 0, verifCopy(b))
	verifAssert(err == nil, "the encoding of a command decodes without error")
	if err != nil {
		verifReach("decode-error")
		return
	}
	verifAssert(got.Size() == len(b), "decoded command reports the encoded length as its size")
	c18Same(cmd, got)
	verifReach("done")
}

// c18SeqArg splits a sequence index into (idx, variant): i = idx + 100*variant.
func c18SeqArg(i int) (int, int) { return i % 100, i / 100 }

// Seq: up to two commands concatenated in one payload decode to the same sequence.
func VerifC18_Seq(up, i1, i2 int) {
	var want Commands
	if i1 >= 0 {
		idx, variant := c18SeqArg(i1)
		c, ok := c18Build(up, idx, variant, "c1.", false)
		if !ok {
			verifReach("n/a")
			return
		}
		want = append(want, c)
	}
	if i2 >= 0 {
		idx, variant := c18SeqArg(i2)
		c, ok := c18Build(up, idx, variant, "c2.", false)
		if !ok {
			verifReach("n/a")
			return
		}
		want = append(want, c)
	}
	b, err := want.MarshalBinary()
	verifAssert(err == nil, "seq: commands whose fields lie within their bit widths encode without error")
	if err != nil {
		verifReach("encode-error")
		return
	}
	total := 0
	for _, c := range want {
		total += c.Size()
	}
	verifAssert(len(b) == total, "seq: encoded length == sum of the command sizes")
	var got Commands
	err = got.UnmarshalBinary(up != 0, verifCopy(b))
	verifAssert(err == nil, "seq: concatenated commands decode without error")
	if err != nil {
		verifReach("decode-error")
		return
	}
	verifAssert(len(got) == len(want), "seq: decodes into the same number of commands")
	if len(got) != len(want) {
		verifReach("count-mismatch")
		return
	}
	for k := range want {
		c18Same(want[k], got[k])
	}
	verifNoGlobalWritesExcept("") // C10: no hidden package-level state is written
	verifReach("done")
}

// NoPanic: every field over its whole Go type, optional fields nil or present per variant; encoding and
// Size must not panic.
func VerifC18_NoPanic(up, idx, variant int) {
	cmd, ok := c18Build(up, idx, variant, "", true)
	if !ok {
		verifReach("n/a")
		return
	}
	b, err := cmd.MarshalBinary()
	n := cmd.Size()
	if err == nil {
		verifAssert(len(b) == n, "an accepted command value encodes to exactly Size() bytes")
	}
	verifReach("done")
}

// Keys: the multicast key derivations of TS005-1.0.0 section 4.
//   McRootKey = aes128_encrypt(GenAppKey, 0x00 | pad16)   (LoRaWAN 1.0.x)
//   McRootKey = aes128_encrypt(AppKey,    0x20 | pad16)   (LoRaWAN 1.1)
//   McKEKey   = aes128_encrypt(McRootKey, 0x00 | pad16)
//   McAppSKey = aes128_encrypt(McKey, 0x01 | McAddr | pad16)
//   McNetSKey = aes128_encrypt(McKey, 0x02 | McAddr | pad16)
// Byte order of McAddr in the spec model: little-endian as on the wire (LoRaWAN convention for multi-byte
// fields). lorawan.DevAddr holds the address most-significant byte first (DevAddr{0x01,0x02,0x03,0x04} is
// address 0x01020304), so block byte 1 is DevAddr[3] (LSB) ... block byte 4 is DevAddr[0] (MSB); keys.go
// obtains the same order through DevAddr.MarshalBinary, which writes the wire (little-endian) form.
func VerifC18_Keys(which int) {
	key := lorawan.AES128Key(verifNondetKey("key"))
	var block [16]byte
	var got lorawan.AES128Key
	var err error
	switch which {
	case 0:
		got, err = GetMcRootKeyForGenAppKey(key)
		block[0] = 0x00
	case 1:
		got, err = GetMcRootKeyForAppKey(key)
		block[0] = 0x20
	case 2:
		got, err = GetMcKEKey(key)
		block[0] = 0x00
	case 3, 4:
		addr := c18DevAddr("mcAddr")
		if which == 3 {
			got, err = GetMcAppSKey(key, addr)
			block[0] = 0x01
		} else {
			got, err = GetMcNetSKey(key, addr)
			block[0] = 0x02
		}
		block[1] = addr[3]
		block[2] = addr[2]
		block[3] = addr[1]
		block[4] = addr[0]
	default:
		verifReach("n/a")
		return
	}
	verifAssert(err == nil, "key derivation succeeds for every 128-bit key")
	if err != nil {
		verifReach("error")
		return
	}
	want := verifAESEnc(key[:], block)
	switch which {
	case 0:
		verifAssert(verifBytesEq(got[:], want[:]), "McRootKey == aes128_encrypt(GenAppKey, 0x00 | pad16)")
	case 1:
		verifAssert(verifBytesEq(got[:], want[:]), "McRootKey == aes128_encrypt(AppKey, 0x20 | pad16)")
	case 2:
		verifAssert(verifBytesEq(got[:], want[:]), "McKEKey == aes128_encrypt(McRootKey, 0x00 | pad16)")
	case 3:
		verifAssert(verifBytesEq(got[:], want[:]), "McAppSKey == aes128_encrypt(McKey, 0x01 | McAddr(little-endian) | pad16)")
	case 4:
		verifAssert(verifBytesEq(got[:], want[:]), "McNetSKey == aes128_encrypt(McKey, 0x02 | McAddr(little-endian) | pad16)")
	}
	verifReach("done")
}

// c18Derive runs derivation `which` with a symbolic key (and address) and returns (library result, spec result).
func c18Derive(which int, pfx string) (lorawan.AES128Key, [16]byte, error) {
	key := lorawan.AES128Key(verifNondetKey(pfx + "key"))
	var block [16]byte
	var got lorawan.AES128Key
	var err error
	switch which {
	case 0:
		got, err = GetMcRootKeyForGenAppKey(key)
	case 1:
		got, err = GetMcRootKeyForAppKey(key)
		block[0] = 0x20
	case 2:
		got, err = GetMcKEKey(key)
	default:
		addr := c18DevAddr(pfx + "mcAddr")
		if which == 3 {
			got, err = GetMcAppSKey(key, addr)
			block[0] = 0x01
		} else {
			got, err = GetMcNetSKey(key, addr)
			block[0] = 0x02
		}
		block[1], block[2], block[3], block[4] = addr[3], addr[2], addr[1], addr[0]
	}
	return got, verifAESEnc(key[:], block), err
}

// KeysTwice: two derivations in sequence with independent symbolic keys - the second result must not depend
// on the first call (no hidden state between derivations).
func VerifC18_KeysTwice(w1, w2 int) {
	g1, s1, e1 := c18Derive(w1, "first.")
	g2, s2, e2 := c18Derive(w2, "second.")
	verifAssert(e1 == nil, "first key derivation succeeds")
	verifAssert(e2 == nil, "second key derivation succeeds")
	verifAssert(verifBytesEq(g1[:], s1[:]), "first derived key == TS005 AES derivation")
	verifAssert(verifBytesEq(g2[:], s2[:]), "a key derived after another derivation == TS005 AES derivation (independent of the earlier call)")
	verifNoGlobalWritesExcept("") // C10: no hidden package-level state is written
	verifReach("done")
}
