package multicastsetup

// C10 (application layer): decoding into a payload value that was used before gives the same result as decoding
// into a fresh one. Both buffers are symbolic, L bytes each.
func VerifC10_ReusePayload(up, idx, L int) {
	cid, _, ok := c18CID(up, idx)
	if !ok {
		verifReach("n/a")
		return
	}
	fresh, err := GetCommandPayload(up != 0, cid)
	if err != nil {
		verifReach("no-payload")
		return
	}
	used, _ := GetCommandPayload(up != 0, cid)
	b1 := verifNondetBytes("first", L)
	b2 := verifNondetBytes("second", L)
	if used.UnmarshalBinary(verifCopy(b1)) != nil {
		verifReach("first-rejected")
		return
	}
	e1 := used.UnmarshalBinary(verifCopy(b2))
	e2 := fresh.UnmarshalBinary(verifCopy(b2))
	verifAssert((e1 == nil) == (e2 == nil), "a used payload value accepts exactly what a fresh one accepts")
	if e1 != nil || e2 != nil {
		verifReach("second-rejected")
		return
	}
	c18Same(Command{CID: cid, Payload: fresh}, Command{CID: cid, Payload: used})
	verifReach("done")
}
