package multicastsetup

// C10 (application layer): decoding into a payload value that was used before gives the same result as decoding
// into a fresh one. Both buffers are symbolic, L bytes each.
func VerifC10_ReusePayload(up, idx, L int) {
	cid, _, ok := c18CID(up, idx)
	if !ok {
		verifReach("n/a")
		return
	}
	fresh, err := GetCommandPayload(up != 0, cid)
	if err != nil {
		verifReach("no-payload")
		return
	}
	used, _ := GetCommandPayload(up != 0, cid)
	b1 := verifNondetBytes("first", L)
	b2 := verifNondetBytes("second", L)
	if used.UnmarshalBinary(verifCopy(b1)) != nil {
		verifReach("first-rejected")
		return
	}
	e1 := used.UnmarshalBinary(verifCopy(b2))
	e2 := fresh.UnmarshalBinary(verifCopy(b2))
	verifAssert((e1 == nil) == (e2 == nil), "a used payload value accepts exactly what a fresh one accepts")
	if e1 != nil || e2 != nil {
		verifReach("second-rejected")
		return
	}
	c18Same(Command{CID: cid, Payload: fresh}, Command{CID: cid, Payload: used})
	verifReach("done")
}

// A decoded command payload does not change when the caller overwrites the buffer it was decoded from.
func VerifC10_AliasPayload(up, idx, L int) {
	cid, _, ok := c18CID(up, idx)
	if !ok {
		verifReach("n/a")
		return
	}
	p, err := GetCommandPayload(up != 0, cid)
	if err != nil {
		verifReach("no-payload")
		return
	}
	data := verifNondetBytes("data", L)
	if p.UnmarshalBinary(data) != nil {
		verifReach("rejected")
		return
	}
	out1, err := p.MarshalBinary()
	if err != nil {
		verifReach("not-encodable")
		return
	}
	snap := verifCopy(out1)
	verifHavoc(data) // the caller reuses its receive buffer
	out2, err := p.MarshalBinary()
	verifAssert(err == nil, "the decoded payload still encodes after the input buffer was overwritten")
	verifAssert(verifBytesEq(out2, snap), "a decoded payload does not change when the buffer it was decoded from is overwritten")
	verifReach("accepted")
}

// A decoded McGroupStatusAns that the application still holds (a struct copy - the only application-layer payload
// of this package with a slice in it) does not change when the same payload variable decodes the next answer.
func VerifC10_KeepsEarlier(L1, L2 int) {
	var p McGroupStatusAnsPayload
	b1 := verifNondetBytes("first", L1)
	b2 := verifNondetBytes("second", L2)
	if p.UnmarshalBinary(verifCopy(b1)) != nil {
		verifReach("first-rejected")
		return
	}
	held := p
	out1, err := held.MarshalBinary()
	if err != nil {
		verifReach("not-encodable")
		return
	}
	snap := verifCopy(out1)
	_ = p.UnmarshalBinary(verifCopy(b2))
	out2, err := held.MarshalBinary()
	verifAssert(err == nil, "the answer decoded earlier still encodes after the variable decoded the next one")
	verifAssert(verifBytesEq(out2, snap), "an answer decoded earlier does not change when the same payload variable decodes the next one")
	verifReach("done")
}
