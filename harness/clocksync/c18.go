package clocksync

// C18 (clock synchronisation, TS003-1.0.0): every command whose fields lie within their specified bit
// widths encodes to exactly Size() bytes and decodes back to the same command; concatenated commands
// decode to the same sequence; encoding never panics.
//
// Command tables (idx per direction):
//   up=1 (device -> server)                     up=0 (server -> device)
//     0 PackageVersionAns           (0x00)        0 PackageVersionReq           (0x00, no payload)
//     1 AppTimeReq                  (0x01)        1 AppTimeAns                  (0x01)
//     2 DeviceAppTimePeriodicityAns (0x02)        2 DeviceAppTimePeriodicityReq (0x02)
//                                                 3 ForceDeviceResyncReq        (0x03)
// No command of this package has structural variants: variant is always 0.
//
// Valid shape tuples
//   VerifC18_RoundTrip(up, idx, variant): (1,0,0) (1,1,0) (1,2,0) (0,0,0) (0,1,0) (0,2,0) (0,3,0)
//   VerifC18_NoPanic  (up, idx, variant): the same seven tuples
//   VerifC18_Seq      (up, i1, i2)      : up=1: i1,i2 in -1..2 ; up=0: i1,i2 in -1..3   (-1 = no command)
//                                         (an index may also be written idx+100*variant; variant is 0 here)
// Any other tuple ends in verifReach("n/a").
//
// Field widths (TS003): AppTimeReq.Param.TokenReq 4 bits, AnsRequired 1 bit; AppTimeAns.Param.TokenAns 4 bits;
// DeviceAppTimePeriodicityReq.Periodicity.Period 4 bits; DeviceAppTimePeriodicityAns.Status.NotSupported 1 bit;
// ForceDeviceResyncReq.ForceConf.NbTransmissions 3 bits; every other field uses its whole Go type.

// c18CID: CID and number of structural variants of command idx in direction up.
func c18CID(up, idx int) (CID, int, bool) {
	if up != 0 {
		switch idx {
		case 0:
			return PackageVersionAns, 1, true
		case 1:
			return AppTimeReq, 1, true
		case 2:
			return DeviceAppTimePeriodicityAns, 1, true
		}
		return 0, 0, false
	}
	switch idx {
	case 0:
		return PackageVersionReq, 1, true
	case 1:
		return AppTimeAns, 1, true
	case 2:
		return DeviceAppTimePeriodicityReq, 1, true
	case 3:
		return ForceDeviceResyncReq, 1, true
	}
	return 0, 0, false
}

// c18U8 draws a uint8 field: within its bit width (mask) or, full, over the whole Go type.
func c18U8(name string, mask uint8, full bool) uint8 {
	v := verifNondetU8(name)
	if full {
		return v
	}
	return v & mask
}

// c18Build builds command idx of direction up with symbolic field values (nondet names prefixed by pfx).
func c18Build(up, idx, variant int, pfx string, full bool) (Command, bool) {
	cid, nvar, ok := c18CID(up, idx)
	if !ok || variant < 0 || variant >= nvar {
		return Command{}, false
	}
	cmd := Command{CID: cid}
	if up != 0 {
		switch idx {
		case 0:
			cmd.Payload = &PackageVersionAnsPayload{
				PackageIdentifier: verifNondetU8(pfx + "PackageVersionAns.PackageIdentifier"),
				PackageVersion:    verifNondetU8(pfx + "PackageVersionAns.PackageVersion"),
			}
		case 1:
			cmd.Payload = &AppTimeReqPayload{
				DeviceTime: verifNondetU32(pfx + "AppTimeReq.DeviceTime"),
				Param: AppTimeReqPayloadParam{
					AnsRequired: verifNondetBool(pfx + "AppTimeReq.Param.AnsRequired"),
					TokenReq:    c18U8(pfx+"AppTimeReq.Param.TokenReq", 0x0f, full),
				},
			}
		case 2:
			cmd.Payload = &DeviceAppTimePeriodicityAnsPayload{
				Status: DeviceAppTimePeriodicityAnsPayloadStatus{
					NotSupported: verifNondetBool(pfx + "DeviceAppTimePeriodicityAns.Status.NotSupported"),
				},
				Time: verifNondetU32(pfx + "DeviceAppTimePeriodicityAns.Time"),
			}
		}
		return cmd, true
	}
	switch idx {
	case 0:
		// PackageVersionReq: CID only
	case 1:
		cmd.Payload = &AppTimeAnsPayload{
			TimeCorrection: verifNondetI32(pfx + "AppTimeAns.TimeCorrection"),
			Param: AppTimeAnsPayloadParam{
				TokenAns: c18U8(pfx+"AppTimeAns.Param.TokenAns", 0x0f, full),
			},
		}
	case 2:
		cmd.Payload = &DeviceAppTimePeriodicityReqPayload{
			Periodicity: DeviceAppTimePeriodicityReqPayloadPeriodicity{
				Period: c18U8(pfx+"DeviceAppTimePeriodicityReq.Periodicity.Period", 0x0f, full),
			},
		}
	case 3:
		cmd.Payload = &ForceDeviceResyncReqPayload{
			ForceConf: ForceDeviceResyncReqPayloadForceConf{
				NbTransmissions: c18U8(pfx+"ForceDeviceResyncReq.ForceConf.NbTransmissions", 0x07, full),
			},
		}
	}
	return cmd, true
}

// c18Same asserts that got is the same command as want (CID, payload type, every field).
func c18Same(want, got Command) {
	verifAssert(got.CID == want.CID, "decoded CID == encoded CID")
	switch w := want.Payload.(type) {
	case nil:
		verifAssert(got.Payload == nil, "a command without payload decodes without payload")
	case *PackageVersionAnsPayload:
		g, ok := got.Payload.(*PackageVersionAnsPayload)
		verifAssert(ok, "PackageVersionAns: decoded payload has the encoded type")
		if !ok {
			return
		}
		verifAssert(g.PackageIdentifier == w.PackageIdentifier, "PackageVersionAns.PackageIdentifier decodes back unchanged")
		verifAssert(g.PackageVersion == w.PackageVersion, "PackageVersionAns.PackageVersion decodes back unchanged")
	case *AppTimeReqPayload:
		g, ok := got.Payload.(*AppTimeReqPayload)
		verifAssert(ok, "AppTimeReq: decoded payload has the encoded type")
		if !ok {
			return
		}
		verifAssert(g.DeviceTime == w.DeviceTime, "AppTimeReq.DeviceTime decodes back unchanged")
		verifAssert(g.Param.AnsRequired == w.Param.AnsRequired, "AppTimeReq.Param.AnsRequired decodes back unchanged")
		verifAssert(g.Param.TokenReq == w.Param.TokenReq, "AppTimeReq.Param.TokenReq decodes back unchanged")
	case *DeviceAppTimePeriodicityAnsPayload:
		g, ok := got.Payload.(*DeviceAppTimePeriodicityAnsPayload)
		verifAssert(ok, "DeviceAppTimePeriodicityAns: decoded payload has the encoded type")
		if !ok {
			return
		}
		verifAssert(g.Status.NotSupported == w.Status.NotSupported, "DeviceAppTimePeriodicityAns.Status.NotSupported decodes back unchanged")
		verifAssert(g.Time == w.Time, "DeviceAppTimePeriodicityAns.Time decodes back unchanged")
	case *AppTimeAnsPayload:
		g, ok := got.Payload.(*AppTimeAnsPayload)
		verifAssert(ok, "AppTimeAns: decoded payload has the encoded type")
		if !ok {
			return
		}
		verifAssert(g.TimeCorrection == w.TimeCorrection, "AppTimeAns.TimeCorrection decodes back unchanged")
		verifAssert(g.Param.TokenAns == w.Param.TokenAns, "AppTimeAns.Param.TokenAns decodes back unchanged")
	case *DeviceAppTimePeriodicityReqPayload:
		g, ok := got.Payload.(*DeviceAppTimePeriodicityReqPayload)
		verifAssert(ok, "DeviceAppTimePeriodicityReq: decoded payload has the encoded type")
		if !ok {
			return
		}
		verifAssert(g.Periodicity.Period == w.Periodicity.Period, "DeviceAppTimePeriodicityReq.Periodicity.Period decodes back unchanged")
	case *ForceDeviceResyncReqPayload:
		g, ok := got.Payload.(*ForceDeviceResyncReqPayload)
		verifAssert(ok, "ForceDeviceResyncReq: decoded payload has the encoded type")
		if !ok {
			return
		}
		verifAssert(g.ForceConf.NbTransmissions == w.ForceConf.NbTransmissions, "ForceDeviceResyncReq.ForceConf.NbTransmissions decodes back unchanged")
	default:
		verifAssert(false, "harness: unknown payload type")
	}
}

// RoundTrip: one command, every field within its specified bit width.
func VerifC18_RoundTrip(up, idx, variant int) {
	cmd, ok := c18Build(up, idx, variant, "", false)
	if !ok {
		verifReach("n/a")
		return
	}
	b, err := cmd.MarshalBinary()
	verifAssert(err == nil, "a command whose fields lie within their bit widths encodes without error")
	if err != nil {
		verifReach("encode-error")
		return
	}
	verifAssert(len(b) == cmd.Size(), "encoded length == Command.Size()")
	if cmd.Payload != nil {
		verifAssert(len(b) == cmd.Payload.Size()+1, "encoded length == payload Size() + 1")
	} else {
		verifAssert(len(b) == 1, "a command without payload encodes to its CID byte")
	}
	var got Command
	err = got.UnmarshalBinary(up != 0, verifCopy(b))
	verifAssert(err == nil, "the encoding of a command decodes without error")
	if err != nil {
		verifReach("decode-error")
		return
	}
	verifAssert(got.Size() == len(b), "decoded command reports the encoded length as its size")
	c18Same(cmd, got)
	verifReach("done")
}

// c18SeqArg splits a sequence index into (idx, variant): i = idx + 100*variant.
func c18SeqArg(i int) (int, int) { return i % 100, i / 100 }

// Seq: up to two commands concatenated in one payload decode to the same sequence.
func VerifC18_Seq(up, i1, i2 int) {
	var want Commands
	if i1 >= 0 {
		idx, variant := c18SeqArg(i1)
		c, ok := c18Build(up, idx, variant, "c1.", false)
		if !ok {
			verifReach("n/a")
			return
		}
		want = append(want, c)
	}
	if i2 >= 0 {
		idx, variant := c18SeqArg(i2)
		c, ok := c18Build(up, idx, variant, "c2.", false)
		if !ok {
			verifReach("n/a")
			return
		}
		want = append(want, c)
	}
	b, err := want.MarshalBinary()
	verifAssert(err == nil, "seq: commands whose fields lie within their bit widths encode without error")
	if err != nil {
		verifReach("encode-error")
		return
	}
	total := 0
	for _, c := range want {
		total += c.Size()
	}
	verifAssert(len(b) == total, "seq: encoded length == sum of the command sizes")
	var got Commands
	err = got.UnmarshalBinary(up != 0, verifCopy(b))
	verifAssert(err == nil, "seq: concatenated commands decode without error")
	if err != nil {
		verifReach("decode-error")
		return
	}
	verifAssert(len(got) == len(want), "seq: decodes into the same number of commands")
	if len(got) != len(want) {
		verifReach("count-mismatch")
		return
	}
	for k := range want {
		c18Same(want[k], got[k])
	}
	verifNoGlobalWritesExcept("") // C10: no hidden package-level state is written
	verifReach("done")
}

// NoPanic: every field over its whole Go type; encoding and Size must not panic.
func VerifC18_NoPanic(up, idx, variant int) {
	cmd, ok := c18Build(up, idx, variant, "", true)
	if !ok {
		verifReach("n/a")
		return
	}
	b, err := cmd.MarshalBinary()
	n := cmd.Size()
	if err == nil {
		verifAssert(len(b) == n, "an accepted command value encodes to exactly Size() bytes")
	}
	verifReach("done")
}
