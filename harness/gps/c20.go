package gps

import "time"

// C20 (GPS part): UTC <-> time-since-GPS-epoch conversion.
// time.Time is modelled as nanoseconds since the Unix epoch (DESIGN.md section 4).

// GPS-UTC leap-second insertions: 00:00:00 UTC of these dates (published list, IERS bulletin C).
var specLeapDates = [][3]int{
	{1981, 7, 1}, {1982, 7, 1}, {1983, 7, 1}, {1985, 7, 1}, {1988, 1, 1}, {1990, 1, 1}, {1991, 1, 1}, {1992, 7, 1}, {1993, 7, 1},
	{1994, 7, 1}, {1996, 1, 1}, {1997, 7, 1}, {1999, 1, 1}, {2006, 1, 1}, {2009, 1, 1}, {2012, 7, 1}, {2015, 7, 1}, {2017, 1, 1},
}

const specGPSEpochUnix = 315964800 // 1980-01-06 00:00:00 UTC

func specUnix(y, m, d int) int64 {
	return time.Date(y, time.Month(m), d, 0, 0, 0, 0, time.UTC).UnixNano()
}

// specOffset: one second (in ns) per insertion at or before the instant (ns since Unix epoch).
func specOffset(ns int64) int64 {
	var n int64
	for _, ld := range specLeapDates {
		n += verifIteI64(ns >= specUnix(ld[0], ld[1], ld[2]), 1000000000, 0)
	}
	return n
}

// inLastSecond: the instant lies strictly inside the UTC second 23:59:59 before an insertion (where the leap second
// itself, 23:59:60, cannot be represented; the library switches offsets inside this second).
func specInLastSecond(ns int64) bool {
	in := false
	for _, ld := range specLeapDates {
		b := specUnix(ld[0], ld[1], ld[2])
		in = verifOr(in, verifAnd(ns > b-1000000000, ns < b))
	}
	return in
}

func c20Instant(name string) (time.Time, int64) {
	// any instant from the GPS epoch to 2100-01-01 at nanosecond resolution
	ns := verifNondetI64(name)
	verifAssume(ns >= specGPSEpochUnix*1000000000)
	verifAssume(ns < 4102444800*1000000000)
	return verifTimeFromUnixNano(ns), ns
}

func VerifC20_GPSRoundTrip() {
	t, ns := c20Instant("t")
	d := Time(t).TimeSinceGPSEpoch()
	back := NewTimeFromTimeSinceGPSEpoch(d)
	verifAssertKnown("C20-gps-last-second", specInLastSecond(ns), verifTimeUnixNano(time.Time(back)) == ns, "UTC -> time-since-GPS-epoch -> UTC returns the same instant")
	verifReach("done")
}

func VerifC20_GPSOffset() {
	t, ns := c20Instant("t")
	d := Time(t).TimeSinceGPSEpoch()
	want := time.Duration(ns-specGPSEpochUnix*1000000000) + time.Duration(specOffset(ns))
	verifAssertKnown("C20-gps-last-second", specInLastSecond(ns), d == want, "time since GPS epoch == elapsed UTC time + number of leap seconds inserted at or before that date")
	verifReach("done")
}

func VerifC20_GPSMonotone() {
	t1, n1 := c20Instant("t1")
	t2, n2 := c20Instant("t2")
	verifAssume(n1 < n2)
	d1 := Time(t1).TimeSinceGPSEpoch()
	d2 := Time(t2).TimeSinceGPSEpoch()
	verifAssert(d1 < d2, "the UTC -> GPS mapping is strictly increasing")
	verifReach("done")
}

// GPS duration -> UTC -> GPS duration is the identity except inside an inserted leap second.
func VerifC20_GPSDuration() {
	d := verifNondetI64("sinceEpoch")
	verifAssume(d >= 0)
	verifAssume(d < (4102444800-specGPSEpochUnix+18)*1000000000)
	// inside the k-th inserted second: GPS time in [b_k - epoch + (k-1) s, b_k - epoch + k s)
	inLeap := false
	for k, ld := range specLeapDates {
		lo := specUnix(ld[0], ld[1], ld[2]) - specGPSEpochUnix*1000000000 + int64(k)*1000000000
		inLeap = verifOr(inLeap, verifAnd(d >= lo, d < lo+1000000000))
	}
	t := NewTimeFromTimeSinceGPSEpoch(time.Duration(d))
	back := t.TimeSinceGPSEpoch()
	// the second before the inserted one is where the library changes its offset
	near := false
	for k, ld := range specLeapDates {
		lo := specUnix(ld[0], ld[1], ld[2]) - specGPSEpochUnix*1000000000 + int64(k)*1000000000
		near = verifOr(near, verifAnd(d > lo-1000000000, d < lo))
	}
	if !inLeap {
		verifAssertKnown("C20-gps-last-second", near, int64(back) == d, "GPS duration -> UTC -> GPS duration is the identity outside inserted leap seconds")
	}
	verifReach("done")
}
