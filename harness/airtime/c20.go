package airtime

// C20 (airtime part): LoRa time-on-air against the Semtech formula in exact integer arithmetic.

func specCeilDiv(a, b int) int {
	// b > 0
	q := a / b
	if a%b != 0 && a > 0 {
		q++
	}
	return q
}

// specSymbols: n_payload = 8 + max(ceil((8PL - 4SF + 28 + 16 - 20H) / (4(SF - 2DE))) * (CR + 4), 0)
func specSymbols(pl, sf, cr int, header, ldro bool) int {
	h, de := 0, 0
	if !header {
		h = 1
	}
	if ldro {
		de = 1
	}
	a := 8*pl - 4*sf + 28 + 16 - 20*h
	b := 4 * (sf - 2*de)
	n := specCeilDiv(a, b) * (cr + 4)
	if n < 0 {
		n = 0
	}
	return 8 + n
}

// sf, cr, header, ldro concrete; payload size symbolic 0..255.
func VerifC20_Symbols(sf, cr, h, de int) {
	pl := int(verifNondetU8("payloadSize"))
	got, err := CalculateLoRaPayloadSymbolNumber(pl, sf, CodingRate(cr), h != 0, de != 0)
	verifAssert(err == nil, "coding rates 1..4 are accepted")
	verifAssert(got == specSymbols(pl, sf, cr, h != 0, de != 0), "payload symbol count == Semtech formula (exact integer arithmetic)")
	got2, _ := CalculateLoRaPayloadSymbolNumber(pl+1, sf, CodingRate(cr), h != 0, de != 0)
	verifAssert(got2 >= got, "the symbol count never decreases with the payload size")
	verifReach("done")
}

var specBandwidths = []int{125, 250, 500, 812, 1625}

// Whole airtime: symbol duration, preamble (n + 4.25 symbols) and payload, for symbolic payload size and preamble length.
func VerifC20_Airtime(sf, bwIdx, cr, h, de int) {
	bw := specBandwidths[bwIdx]
	pl := int(verifNondetU8("payloadSize"))
	pre := int(verifNondetU8("preamble") & 63)
	got, err := CalculateLoRaAirtime(pl, sf, bw, pre, CodingRate(cr), h != 0, de != 0)
	verifAssert(err == nil, "airtime defined")
	// exact value in units of 1/(100*bw) ns: symbols * 2^SF * 1e6 * 100 / bw, symbols = pre + 4.25 + n_payload
	nPay := specSymbols(pl, sf, cr, h != 0, de != 0)
	sym100 := 100*pre + 425 + 100*nPay // hundredths of a symbol
	exactNum := sym100 * (1 << uint(sf)) * 1000000 // ns * 100 * bw
	lib := int(got) * 100 * bw
	// the library truncates the symbol duration to whole nanoseconds and the preamble to whole nanoseconds:
	// it may be short by less than one nanosecond per symbol plus one
	verifAssert(lib <= exactNum, "airtime never exceeds the exact Semtech value")
	verifAssert(exactNum-lib < (sym100+100)*bw, "airtime is within one nanosecond per symbol of the exact Semtech value")
	got2, _ := CalculateLoRaAirtime(pl+1, sf, bw, pre, CodingRate(cr), h != 0, de != 0)
	verifAssert(got2 >= got, "airtime never decreases with the payload size")
	verifReach("done")
}

func VerifC20_CodingRate() {
	cr := verifNondetInt("codingRate")
	_, err := CalculateLoRaPayloadSymbolNumber(10, 7, CodingRate(cr), true, false)
	verifAssert((err == nil) == verifAnd(cr >= 1, cr <= 4), "exactly the coding rates 1..4 are accepted")
	verifReach("done")
}
