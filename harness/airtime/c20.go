package airtime

// C20 (airtime part): LoRa time-on-air against the Semtech formula in exact integer arithmetic.

func specCeilDiv(a, b int) int {
	// b > 0
	q := a / b
	if a%b != 0 && a > 0 {
		q++
	}
	return q
}

// specSymbols: n_payload = 8 + max(ceil((8PL - 4SF + 28 + 16 - 20H) / (4(SF - 2DE))) * (CR + 4), 0)
func specSymbols(pl, sf, cr int, header, ldro bool) int {
	h, de := 0, 0
	if !header {
		h = 1
	}
	if ldro {
		de = 1
	}
	a := 8*pl - 4*sf + 28 + 16 - 20*h
	b := 4 * (sf - 2*de)
	n := specCeilDiv(a, b) * (cr + 4)
	if n < 0 {
		n = 0
	}
	return 8 + n
}

// sf, cr, header, ldro concrete; payload size symbolic 0..255.
func VerifC20_Symbols(sf, cr, h, de int) {
	pl := int(verifNondetU8("payloadSize"))
	got, err := CalculateLoRaPayloadSymbolNumber(pl, sf, CodingRate(cr), h != 0, de != 0)
	verifAssert(err == nil, "coding rates 1..4 are accepted")
	verifAssert(got == specSymbols(pl, sf, cr, h != 0, de != 0), "payload symbol count == Semtech formula (exact integer arithmetic)")
	got2, _ := CalculateLoRaPayloadSymbolNumber(pl+1, sf, CodingRate(cr), h != 0, de != 0)
	verifAssert(got2 >= got, "the symbol count never decreases with the payload size")
	verifReach("done")
}

var specBandwidths = []int{125, 250, 500, 812, 1625}

// Whole airtime, decomposed: (1) CalculateLoRaAirtime == preamble + payload symbols x symbol duration with the
// library's own symbol count (proved equal to the Semtech count by VerifC20_Symbols), and (2) for ANY symbol
// count n the durations agree with the exact Semtech value (n_preamble + 4.25 + n) * 2^SF / BW up to the
// truncation to whole nanoseconds, and grow with n.
func VerifC20_Airtime(sf, bwIdx, cr, h, de int) {
	bw := specBandwidths[bwIdx]
	pl := int(verifNondetU8("payloadSize"))
	pre := int(verifNondetU8("preamble") & 63)
	got, err := CalculateLoRaAirtime(pl, sf, bw, pre, CodingRate(cr), h != 0, de != 0)
	verifAssert(err == nil, "airtime defined")
	nLib, _ := CalculateLoRaPayloadSymbolNumber(pl, sf, CodingRate(cr), h != 0, de != 0)
	symDur := CalculateLoRaSymbolDuration(sf, bw)
	preDur := CalculateLoRaPreambleDuration(symDur, pre)
	verifAssert(int64(got) == int64(preDur)+int64(nLib)*int64(symDur), "airtime == preamble duration + payload symbol count x symbol duration")

	verifReach("done")
}

// (2) of the decomposition above; pure integer arithmetic (no floating point in the path condition).
func VerifC20_Durations(sf, bwIdx int) {
	bw := specBandwidths[bwIdx]
	pre := int(verifNondetU8("preamble") & 63)
	symDur := CalculateLoRaSymbolDuration(sf, bw)
	preDur := CalculateLoRaPreambleDuration(symDur, pre)
	n := verifNondetInt("symbols")
	verifAssume(n >= 8)
	verifAssume(n <= 8192)
	total := int(preDur) + n*int(symDur)
	sym100 := 100*pre + 425 + 100*n                // hundredths of a symbol
	exactNum := sym100 * (1 << uint(sf)) * 1000000 // exact airtime in units of 1/(100*bw) ns
	lib := total * 100 * bw
	verifAssert(lib <= exactNum, "durations never exceed the exact Semtech value (n_preamble + 4.25 + n_payload) * 2^SF / BW")
	verifAssert(exactNum-lib < (sym100+100)*bw, "durations are within one nanosecond per symbol of the exact Semtech value")
	verifAssert(int(preDur)+(n+1)*int(symDur) >= total, "the duration grows with the symbol count")
	verifReach("done")
}

func VerifC20_CodingRate() {
	cr := verifNondetInt("codingRate")
	_, err := CalculateLoRaPayloadSymbolNumber(10, 7, CodingRate(cr), true, false)
	verifAssert((err == nil) == verifAnd(cr >= 1, cr <= 4), "exactly the coding rates 1..4 are accepted")
	verifReach("done")
}
