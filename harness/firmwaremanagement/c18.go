package firmwaremanagement

// C18 (firmware management protocol, TS006-1.0.0): every command whose fields lie within their specified bit
// widths encodes to exactly Size() bytes and decodes back to the same command; concatenated commands decode
// to the same sequence; encoding never panics.
//
// Command tables (idx per direction; idx == CID):
//   up=1 (device -> server)                    up=0 (server -> device)
//     0 PackageVersionAns     (0x00)             0 PackageVersionReq     (0x00, no payload)
//     1 DevVersionAns         (0x01)             1 DevVersionReq         (0x01, empty payload)
//     2 DevRebootTimeAns      (0x02)             2 DevRebootTimeReq      (0x02)
//     3 DevRebootCountdownAns (0x03)             3 DevRebootCountdownReq (0x03)
//     4 DevUpgradeImageAns    (0x04)             4 DevUpgradeImageReq    (0x04, empty payload)
//     5 DevDeleteImageAns     (0x05)             5 DevDeleteImageReq     (0x05)
//
// Structural variants
//   DevVersionReq (0,1,v), DevUpgradeImageReq (0,4,v): v = 0: Payload = the empty payload struct; v = 1: Payload = nil
//        (CID only; the decoder may return either nil or the empty payload struct for it)
//   DevUpgradeImageAns (1,4,v):
//        RoundTrip/Seq: v = 0: UpImageStatus in 0..2, nextFirmwareVersion absent (nil);
//                       v = 1: UpImageStatus = 3 (FirmwareValid), nextFirmwareVersion present
//        NoPanic:       v = 0: nextFirmwareVersion nil; v = 1: non-nil; UpImageStatus unconstrained (uint8) in both
//   every other command: v = 0 only.
//
// Valid shape tuples
//   VerifC18_RoundTrip(up, idx, variant):
//        (1,0,0) (1,1,0) (1,2,0) (1,3,0) (1,4,0) (1,4,1) (1,5,0)
//        (0,0,0) (0,1,0) (0,1,1) (0,2,0) (0,3,0) (0,4,0) (0,4,1) (0,5,0)
//   VerifC18_NoPanic(up, idx, variant): the same tuples
//   VerifC18_Seq(up, i1, i2): i1, i2 = -1 (no command) or idx + 100*variant, i.e.
//        up=1: -1, 0, 1, 2, 3, 4, 104, 5 ; up=0: -1, 0, 1, 101, 2, 3, 4, 104, 5
// Any other tuple ends in verifReach("n/a").
//
// Field widths (TS006): DevRebootCountdownReq/Ans.Countdown 24 bits; DevUpgradeImageAns.Status.UpImageStatus 2 bits;
// DevDeleteImageAns.Status.ErrorInvalidVersion and .ErrorNoValidImage 1 bit each (uint8 holding 0 or 1);
// every other field uses its whole Go type (32 bits).

func c18CID(up, idx int) (CID, int, bool) {
	if idx < 0 || idx > 5 {
		return 0, 0, false
	}
	nvar := 1
	if up != 0 {
		if idx == 4 {
			nvar = 2
		}
	} else {
		if idx == 1 || idx == 4 {
			nvar = 2
		}
	}
	return CID(idx), nvar, true
}

// c18U8 / c18U32 draw a field within its bit width (mask) or, full, over the whole Go type.
func c18U8(name string, mask uint8, full bool) uint8 {
	v := verifNondetU8(name)
	if full {
		return v
	}
	return v & mask
}

func c18U32(name string, mask uint32, full bool) uint32 {
	v := verifNondetU32(name)
	if full {
		return v
	}
	return v & mask
}

// c18Build builds command idx of direction up with symbolic field values (nondet names prefixed by pfx).
func c18Build(up, idx, variant int, pfx string, full bool) (Command, bool) {
	cid, nvar, ok := c18CID(up, idx)
	if !ok || variant < 0 || variant >= nvar {
		return Command{}, false
	}
	cmd := Command{CID: cid}
	if up != 0 {
		switch idx {
		case 0:
			cmd.Payload = &PackageVersionAnsPayload{
				PackageIdentifier: verifNondetU8(pfx + "PackageVersionAns.PackageIdentifier"),
				PackageVersion:    verifNondetU8(pfx + "PackageVersionAns.PackageVersion"),
			}
		case 1:
			cmd.Payload = &DevVersionAnsPayload{
				FWversion: verifNondetU32(pfx + "DevVersionAns.FWversion"),
				HWversion: verifNondetU32(pfx + "DevVersionAns.HWversion"),
			}
		case 2:
			cmd.Payload = &DevRebootTimeAnsPayload{
				RebootTime: verifNondetU32(pfx + "DevRebootTimeAns.RebootTime"),
			}
		case 3:
			cmd.Payload = &DevRebootCountdownAnsPayload{
				Countdown: c18U32(pfx+"DevRebootCountdownAns.Countdown", 0xffffff, full),
			}
		case 4:
			p := &DevUpgradeImageAnsPayload{}
			if full {
				p.Status.UpImageStatus = UpImageStatus(verifNondetU8(pfx + "DevUpgradeImageAns.Status.UpImageStatus"))
			} else if variant == 0 {
				s := verifNondetU8(pfx+"DevUpgradeImageAns.Status.UpImageStatus") & 0x03
				verifAssume(s != uint8(FirmwareValid)) // no valid image: no version field
				p.Status.UpImageStatus = UpImageStatus(s)
			} else {
				p.Status.UpImageStatus = FirmwareValid
			}
			if variant == 1 {
				v := verifNondetU32(pfx + "DevUpgradeImageAns.nextFirmwareVersion")
				p.nextFirmwareVersion = &v
			}
			cmd.Payload = p
		case 5:
			cmd.Payload = &DevDeleteImageAnsPayload{
				Status: DevDeleteImageAnsPayloadStatus{
					ErrorInvalidVersion: c18U8(pfx+"DevDeleteImageAns.Status.ErrorInvalidVersion", 0x01, full),
					ErrorNoValidImage:   c18U8(pfx+"DevDeleteImageAns.Status.ErrorNoValidImage", 0x01, full),
				},
			}
		}
		return cmd, true
	}
	switch idx {
	case 0:
		// PackageVersionReq: CID only
	case 1:
		if variant == 0 {
			cmd.Payload = &DevVersionReqPayload{}
		}
	case 2:
		cmd.Payload = &DevRebootTimeReqPayload{
			RebootTime: verifNondetU32(pfx + "DevRebootTimeReq.RebootTime"),
		}
	case 3:
		cmd.Payload = &DevRebootCountdownReqPayload{
			Countdown: c18U32(pfx+"DevRebootCountdownReq.Countdown", 0xffffff, full),
		}
	case 4:
		if variant == 0 {
			cmd.Payload = &DevUpgradeImageReqPayload{}
		}
	case 5:
		cmd.Payload = &DevDeleteImageReqPayload{
			FirmwareToDeleteVersion: verifNondetU32(pfx + "DevDeleteImageReq.FirmwareToDeleteVersion"),
		}
	}
	return cmd, true
}

// c18Same asserts that got is the same command as want (CID, payload type, every field).
func c18Same(want, got Command) {
	verifAssert(got.CID == want.CID, "decoded CID == encoded CID")
	switch w := want.Payload.(type) {
	case nil:
		// DevVersionReq / DevUpgradeImageReq sent as a bare CID decode into their empty payload struct
		verifAssert(got.Payload == nil || got.Payload.Size() == 0, "a command without payload decodes without payload (or with an empty one)")
	case *PackageVersionAnsPayload:
		g, ok := got.Payload.(*PackageVersionAnsPayload)
		verifAssert(ok, "PackageVersionAns: decoded payload has the encoded type")
		if !ok {
			return
		}
		verifAssert(g.PackageIdentifier == w.PackageIdentifier, "PackageVersionAns.PackageIdentifier decodes back unchanged")
		verifAssert(g.PackageVersion == w.PackageVersion, "PackageVersionAns.PackageVersion decodes back unchanged")
	case *DevVersionAnsPayload:
		g, ok := got.Payload.(*DevVersionAnsPayload)
		verifAssert(ok, "DevVersionAns: decoded payload has the encoded type")
		if !ok {
			return
		}
		verifAssert(g.FWversion == w.FWversion, "DevVersionAns.FWversion decodes back unchanged")
		verifAssert(g.HWversion == w.HWversion, "DevVersionAns.HWversion decodes back unchanged")
	case *DevRebootTimeAnsPayload:
		g, ok := got.Payload.(*DevRebootTimeAnsPayload)
		verifAssert(ok, "DevRebootTimeAns: decoded payload has the encoded type")
		if !ok {
			return
		}
		verifAssert(g.RebootTime == w.RebootTime, "DevRebootTimeAns.RebootTime decodes back unchanged")
	case *DevRebootCountdownAnsPayload:
		g, ok := got.Payload.(*DevRebootCountdownAnsPayload)
		verifAssert(ok, "DevRebootCountdownAns: decoded payload has the encoded type")
		if !ok {
			return
		}
		verifAssert(g.Countdown == w.Countdown, "DevRebootCountdownAns.Countdown decodes back unchanged")
	case *DevUpgradeImageAnsPayload:
		g, ok := got.Payload.(*DevUpgradeImageAnsPayload)
		verifAssert(ok, "DevUpgradeImageAns: decoded payload has the encoded type")
		if !ok {
			return
		}
		verifAssert(g.Status.UpImageStatus == w.Status.UpImageStatus, "DevUpgradeImageAns.Status.UpImageStatus decodes back unchanged")
		verifAssert((g.nextFirmwareVersion == nil) == (w.nextFirmwareVersion == nil), "DevUpgradeImageAns.nextFirmwareVersion is present exactly when it was encoded")
		if g.nextFirmwareVersion != nil && w.nextFirmwareVersion != nil {
			verifAssert(*g.nextFirmwareVersion == *w.nextFirmwareVersion, "DevUpgradeImageAns.nextFirmwareVersion decodes back unchanged")
		}
	case *DevDeleteImageAnsPayload:
		g, ok := got.Payload.(*DevDeleteImageAnsPayload)
		verifAssert(ok, "DevDeleteImageAns: decoded payload has the encoded type")
		if !ok {
			return
		}
		verifAssert(g.Status.ErrorInvalidVersion == w.Status.ErrorInvalidVersion, "DevDeleteImageAns.Status.ErrorInvalidVersion decodes back unchanged")
		verifAssert(g.Status.ErrorNoValidImage == w.Status.ErrorNoValidImage, "DevDeleteImageAns.Status.ErrorNoValidImage decodes back unchanged")
	case *DevVersionReqPayload:
		_, ok := got.Payload.(*DevVersionReqPayload)
		verifAssert(ok, "DevVersionReq: decoded payload has the encoded type")
	case *DevRebootTimeReqPayload:
		g, ok := got.Payload.(*DevRebootTimeReqPayload)
		verifAssert(ok, "DevRebootTimeReq: decoded payload has the encoded type")
		if !ok {
			return
		}
		verifAssert(g.RebootTime == w.RebootTime, "DevRebootTimeReq.RebootTime decodes back unchanged")
	case *DevRebootCountdownReqPayload:
		g, ok := got.Payload.(*DevRebootCountdownReqPayload)
		verifAssert(ok, "DevRebootCountdownReq: decoded payload has the encoded type")
		if !ok {
			return
		}
		verifAssert(g.Countdown == w.Countdown, "DevRebootCountdownReq.Countdown decodes back unchanged")
	case *DevUpgradeImageReqPayload:
		_, ok := got.Payload.(*DevUpgradeImageReqPayload)
		verifAssert(ok, "DevUpgradeImageReq: decoded payload has the encoded type")
	case *DevDeleteImageReqPayload:
		g, ok := got.Payload.(*DevDeleteImageReqPayload)
		verifAssert(ok, "DevDeleteImageReq: decoded payload has the encoded type")
		if !ok {
			return
		}
		verifAssert(g.FirmwareToDeleteVersion == w.FirmwareToDeleteVersion, "DevDeleteImageReq.FirmwareToDeleteVersion decodes back unchanged")
	default:
		verifAssert(false, "harness: unknown payload type")
	}
}

// RoundTrip: one command, every field within its specified bit width.
func VerifC18_RoundTrip(up, idx, variant int) {
	cmd, ok := c18Build(up, idx, variant, "", false)
	if !ok {
		verifReach("n/a")
		return
	}
	b, err := cmd.MarshalBinary()
	verifAssert(err == nil, "a command whose fields lie within their bit widths encodes without error")
	if err != nil {
		verifReach("encode-error")
		return
	}
	verifAssert(len(b) == cmd.Size(), "encoded length == Command.Size()")
	if cmd.Payload != nil {
		verifAssert(len(b) == cmd.Payload.Size()+1, "encoded length == payload Size() + 1")
	} else {
		verifAssert(len(b) == 1, "a command without payload encodes to its CID byte")
	}
	var got Command
	err = got.UnmarshalBinary(up != 0, verifCopy(b))
	verifAssert(err == nil, "the encoding of a command decodes without error")
	if err != nil {
		verifReach("decode-error")
		return
	}
	verifAssert(got.Size() == len(b), "decoded command reports the encoded length as its size")
	c18Same(cmd, got)
	verifReach("done")
}

// c18SeqArg splits a sequence index into (idx, variant): i = idx + 100*variant.
func c18SeqArg(i int) (int, int) { return i % 100, i / 100 }

// Seq: up to two commands concatenated in one payload decode to the same sequence.
func VerifC18_Seq(up, i1, i2 int) {
	var want Commands
	if i1 >= 0 {
		idx, variant := c18SeqArg(i1)
		c, ok := c18Build(up, idx, variant, "c1.", false)
		if !ok {
			verifReach("n/a")
			return
		}
		want = append(want, c)
	}
	if i2 >= 0 {
		idx, variant := c18SeqArg(i2)
		c, ok := c18Build(up, idx, variant, "c2.", false)
		if !ok {
			verifReach("n/a")
			return
		}
		want = append(want, c)
	}
	b, err := want.MarshalBinary()
	verifAssert(err == nil, "seq: commands whose fields lie within their bit widths encode without error")
	if err != nil {
		verifReach("encode-error")
		return
	}
	total := 0
	for _, c := range want {
		total += c.Size()
	}
	verifAssert(len(b) == total, "seq: encoded length == sum of the command sizes")
	var got Commands
	err = got.UnmarshalBinary(up != 0, verifCopy(b))
	// recorded finding: DevVersionReq (downlink CID 0x01, no payload bytes) followed by another command
	devVersionReqFirst := up == 0 && i1 >= 0 && i1%100 == 1 && i2 >= 0
	verifAssertKnown("C18-devversionreq-exact-length", devVersionReqFirst, err == nil, "seq: concatenated commands decode without error")
	if err != nil {
		verifReach("decode-error")
		return
	}
	verifAssert(len(got) == len(want), "seq: decodes into the same number of commands")
	if len(got) != len(want) {
		verifReach("count-mismatch")
		return
	}
	for k := range want {
		c18Same(want[k], got[k])
	}
	verifNoGlobalWritesExcept("") // C10: no hidden package-level state is written
	verifReach("done")
}

// NoPanic: every field over its whole Go type, optional fields nil or present per variant; encoding and
// Size must not panic.
func VerifC18_NoPanic(up, idx, variant int) {
	cmd, ok := c18Build(up, idx, variant, "", true)
	if !ok {
		verifReach("n/a")
		return
	}
	b, err := cmd.MarshalBinary()
	n := cmd.Size()
	if err == nil {
		verifAssert(len(b) == n, "an accepted command value encodes to exactly Size() bytes")
	}
	verifReach("done")
}
