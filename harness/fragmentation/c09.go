package fragmentation

// C09 (application layer): Commands.UnmarshalBinary on arbitrary bytes of either direction returns a value or an
// error - no panic, no unbounded loop (engine obligations) - and leaves the input buffer and the memory behind it alone.
func VerifC09_Commands(up, L int) {
	orig := verifNondetBytes("data", L+4)
	buf := verifCopy(orig)
	var c Commands
	c.UnmarshalBinary(up != 0, buf[:L])
	verifAssert(verifBytesEq(buf, orig), "Commands.UnmarshalBinary modifies neither the input buffer nor the memory behind it")
	var one Command
	one.UnmarshalBinary(up != 0, buf[:L])
	verifAssert(verifBytesEq(buf, orig), "Command.UnmarshalBinary modifies neither the input buffer nor the memory behind it")
	verifReach("done")
}
