package fragmentation

// C19: the fragmentation encoder is systematic, linear and uses the TS004 parity matrix.

// specPRBS23 / specMatrixLine: TS004-1.0.0 section 8 (FragmentationBlock coding), written from the specification text.
func specPRBS23(x int) int {
	b0 := x & 1
	b1 := (x >> 5) & 1
	return (x >> 1) + ((b0 ^ b1) << 22)
}

func specMatrixLine(n, m int) []bool {
	line := make([]bool, m)
	pow2 := 0
	if m > 0 && m&(m-1) == 0 {
		pow2 = 1
	}
	x := 1 + 1001*n
	for nb := 0; nb < m/2; nb++ {
		r := 1 << 16
		for r >= m {
			x = specPRBS23(x)
			r = x % (m + pow2)
		}
		line[r] = true
	}
	return line
}

func VerifC19_Encode(w, size, red int) {
	data := verifNondetBytes("data", w*size)
	frags, err := Encode(verifCopy(data), size, red)
	verifAssert(err == nil, "Encode accepts data whose length is a multiple of a positive fragment size")
	verifAssert(len(frags) == w+red, "Encode returns the data fragments followed by the requested number of parity fragments")
	for i := 0; i < w; i++ {
		verifAssert(len(frags[i]) == size, "data fragment has the fragment size")
		verifAssert(verifBytesEq(frags[i], data[i*size:(i+1)*size]), "data fragment i is returned unchanged and in order (systematic code)")
	}
	for y := 0; y < red; y++ {
		sel := specMatrixLine(y+1, w)
		want := make([]byte, size)
		for x := 0; x < w; x++ {
			if sel[x] {
				for m := 0; m < size; m++ {
					want[m] ^= data[x*size+m]
				}
			}
		}
		verifAssert(len(frags[w+y]) == size, "parity fragment has the fragment size")
		verifAssert(verifBytesEq(frags[w+y], want), "parity fragment y == XOR of the data fragments selected by the TS004 matrix line y+1")
	}
	verifReach("done")
}

// Linearity over XOR: Encode(a xor b) == Encode(a) xor Encode(b).
func VerifC19_Linear(w, size, red int) {
	a := verifNondetBytes("a", w*size)
	b := verifNondetBytes("b", w*size)
	fa, e1 := Encode(verifCopy(a), size, red)
	fb, e2 := Encode(verifCopy(b), size, red)
	fx, e3 := Encode(verifXor(a, b), size, red)
	verifAssert(e1 == nil && e2 == nil && e3 == nil, "Encode succeeds")
	verifAssert(len(fx) == len(fa) && len(fx) == len(fb), "same number of fragments")
	for i := range fx {
		verifAssert(verifBytesEq(fx[i], verifXor(fa[i], fb[i])), "Encode(a xor b) == Encode(a) xor Encode(b)")
	}
	verifReach("done")
}

// Invalid sizes are errors, never panics: fragment size any int, data of n bytes.
func VerifC19_InvalidArgs(n, red int) {
	data := verifNondetBytes("data", n)
	size := verifNondetInt("fragmentSize")
	verifAssume(size <= 64) // bound: larger sizes are outside the claim (allocation size is concretised)
	frags, err := Encode(data, size, red)
	if size <= 0 {
		verifAssert(err != nil, "a zero or negative fragment size is reported as an error")
		verifReach("rejected-nonpositive")
		return
	}
	if err != nil {
		verifAssert(n%size != 0, "only a non-dividing fragment size is refused")
		verifReach("rejected-nondividing")
		return
	}
	verifAssert(n%size == 0, "a non-dividing fragment size is reported as an error")
	verifAssert(len(frags) == n/size+red, "fragment count")
	verifReach("accepted")
}
