package fragmentation

// C18 (fragmented data block transport, TS004-1.0.0): every command whose fields lie within their specified
// bit widths encodes to exactly Size() bytes and decodes back to the same command; concatenated commands
// decode to the same sequence; encoding never panics.
//
// Command tables (idx per direction):
//   up=1 (device -> server)                 up=0 (server -> device)
//     0 PackageVersionAns    (0x00)           0 PackageVersionReq    (0x00, no payload)
//     1 FragSessionStatusAns (0x01)           1 FragSessionStatusReq (0x01)
//     2 FragSessionSetupAns  (0x02)           2 FragSessionSetupReq  (0x02)
//     3 FragSessionDeleteAns (0x03)           3 FragSessionDeleteReq (0x03)
//                                             4 DataFragment         (0x08)
//
// Structural variants
//   DataFragment (0,4,v): v = number of payload (fragment) bytes, 0..c18MaxFrag (64); in NoPanic v = 0 is a nil slice
//   every other command: v = 0 only.
//
// Valid shape tuples
//   VerifC18_RoundTrip(up, idx, variant): (1,0,0) (1,1,0) (1,2,0) (1,3,0)
//                                         (0,0,0) (0,1,0) (0,2,0) (0,3,0) (0,4,v) for v in 0..64 (e.g. 0, 1, 5, 64)
//   VerifC18_NoPanic(up, idx, variant):   the same tuples
//   VerifC18_Seq(up, i1, i2): i1, i2 = -1 (no command) or idx + 100*variant, i.e.
//        up=1: -1, 0..3 ; up=0: -1, 0..3, 4 (empty fragment), 104, 204, ... (4 + 100*fragment length)
// Any other tuple ends in verifReach("n/a").
//
// Field widths (TS004): FragIndex 2 bits everywhere; FragSessionSetupReq.FragSession.McGroupBitMask 4 x 1 bit,
// .Control.FragmentationMatrix (FragAlgo) 3 bits, .Control.BlockAckDelay 3 bits; DataFragment.IndexAndN.N and
// FragSessionStatusAns.ReceivedAndIndex.NbFragReceived 14 bits; flags 1 bit each; every other field uses its
// whole Go type.

const c18MaxFrag = 64

func c18CID(up, idx int) (CID, int, bool) {
	if up != 0 {
		switch idx {
		case 0:
			return PackageVersionAns, 1, true
		case 1:
			return FragSessionStatusAns, 1, true
		case 2:
			return FragSessionSetupAns, 1, true
		case 3:
			return FragSessionDeleteAns, 1, true
		}
		return 0, 0, false
	}
	switch idx {
	case 0:
		return PackageVersionReq, 1, true
	case 1:
		return FragSessionStatusReq, 1, true
	case 2:
		return FragSessionSetupReq, 1, true
	case 3:
		return FragSessionDeleteReq, 1, true
	case 4:
		return DataFragment, c18MaxFrag + 1, true
	}
	return 0, 0, false
}

// c18U8 / c18U16 draw a field within its bit width (mask) or, full, over the whole Go type.
func c18U8(name string, mask uint8, full bool) uint8 {
	v := verifNondetU8(name)
	if full {
		return v
	}
	return v & mask
}

func c18U16(name string, mask uint16, full bool) uint16 {
	v := verifNondetU16(name)
	if full {
		return v
	}
	return v & mask
}

func c18Mask4(name string) [4]bool {
	var m [4]bool
	for i := range m {
		m[i] = verifNondetBool(name)
	}
	return m
}

// c18Build builds command idx of direction up with symbolic field values (nondet names prefixed by pfx).
func c18Build(up, idx, variant int, pfx string, full bool) (Command, bool) {
	cid, nvar, ok := c18CID(up, idx)
	if !ok || variant < 0 || variant >= nvar {
		return Command{}, false
	}
	cmd := Command{CID: cid}
	if up != 0 {
		switch idx {
		case 0:
			cmd.Payload = &PackageVersionAnsPayload{
				PackageIdentifier: verifNondetU8(pfx + "PackageVersionAns.PackageIdentifier"),
				PackageVersion:    verifNondetU8(pfx + "PackageVersionAns.PackageVersion"),
			}
		case 1:
			cmd.Payload = &FragSessionStatusAnsPayload{
				ReceivedAndIndex: FragSessionStatusAnsPayloadReceivedAndIndex{
					FragIndex:      c18U8(pfx+"FragSessionStatusAns.ReceivedAndIndex.FragIndex", 0x03, full),
					NbFragReceived: c18U16(pfx+"FragSessionStatusAns.ReceivedAndIndex.NbFragReceived", 0x3fff, full),
				},
				MissingFrag: verifNondetU8(pfx + "FragSessionStatusAns.MissingFrag"),
				Status: FragSessionStatusAnsPayloadStatus{
					NotEnoughMatrixMemory: verifNondetBool(pfx + "FragSessionStatusAns.Status.NotEnoughMatrixMemory"),
				},
			}
		case 2:
			cmd.Payload = &FragSessionSetupAnsPayload{
				StatusBitMask: FragSessionSetupAnsPayloadStatusBitMask{
					FragIndex:                    c18U8(pfx+"FragSessionSetupAns.StatusBitMask.FragIndex", 0x03, full),
					WrongDescriptor:              verifNondetBool(pfx + "FragSessionSetupAns.StatusBitMask.WrongDescriptor"),
					FragSessionIndexNotSupported: verifNondetBool(pfx + "FragSessionSetupAns.StatusBitMask.FragSessionIndexNotSupported"),
					NotEnoughMemory:              verifNondetBool(pfx + "FragSessionSetupAns.StatusBitMask.NotEnoughMemory"),
					EncodingUnsupported:          verifNondetBool(pfx + "FragSessionSetupAns.StatusBitMask.EncodingUnsupported"),
				},
			}
		case 3:
			cmd.Payload = &FragSessionDeleteAnsPayload{
				Status: FragSessionDeleteAnsPayloadStatus{
					FragIndex:           c18U8(pfx+"FragSessionDeleteAns.Status.FragIndex", 0x03, full),
					SessionDoesNotExist: verifNondetBool(pfx + "FragSessionDeleteAns.Status.SessionDoesNotExist"),
				},
			}
		}
		return cmd, true
	}
	switch idx {
	case 0:
		// PackageVersionReq: CID only
	case 1:
		cmd.Payload = &FragSessionStatusReqPayload{
			FragStatusReqParam: FragSessionStatusReqPayloadFragStatusReqParam{
				FragIndex:    c18U8(pfx+"FragSessionStatusReq.FragStatusReqParam.FragIndex", 0x03, full),
				Participants: verifNondetBool(pfx + "FragSessionStatusReq.FragStatusReqParam.Participants"),
			},
		}
	case 2:
		cmd.Payload = &FragSessionSetupReqPayload{
			FragSession: FragSessionSetupReqPayloadFragSession{
				FragIndex:      c18U8(pfx+"FragSessionSetupReq.FragSession.FragIndex", 0x03, full),
				McGroupBitMask: c18Mask4(pfx + "FragSessionSetupReq.FragSession.McGroupBitMask"),
			},
			NbFrag:   verifNondetU16(pfx + "FragSessionSetupReq.NbFrag"),
			FragSize: verifNondetU8(pfx + "FragSessionSetupReq.FragSize"),
			Control: FragSessionSetupReqPayloadControl{
				FragmentationMatrix: c18U8(pfx+"FragSessionSetupReq.Control.FragmentationMatrix", 0x07, full),
				BlockAckDelay:       c18U8(pfx+"FragSessionSetupReq.Control.BlockAckDelay", 0x07, full),
			},
			Padding:    verifNondetU8(pfx + "FragSessionSetupReq.Padding"),
			Descriptor: verifNondet4(pfx + "FragSessionSetupReq.Descriptor"),
		}
	case 3:
		cmd.Payload = &FragSessionDeleteReqPayload{
			Param: FragSessionDeleteReqPayloadParam{
				FragIndex: c18U8(pfx+"FragSessionDeleteReq.Param.FragIndex", 0x03, full),
			},
		}
	case 4:
		p := &DataFragmentPayload{
			IndexAndN: DataFragmentPayloadIndexAndN{
				FragIndex: c18U8(pfx+"DataFragment.IndexAndN.FragIndex", 0x03, full),
				N:         c18U16(pfx+"DataFragment.IndexAndN.N", 0x3fff, full),
			},
		}
		if !(full && variant == 0) {
			p.Payload = verifNondetBytes(pfx+"DataFragment.Payload", variant)
		}
		cmd.Payload = p
	}
	return cmd, true
}

// c18Same asserts that got is the same command as want (CID, payload type, every field).
func c18Same(want, got Command) {
	verifAssert(got.CID == want.CID, "decoded CID == encoded CID")
	switch w := want.Payload.(type) {
	case nil:
		verifAssert(got.Payload == nil, "a command without payload decodes without payload")
	case *PackageVersionAnsPayload:
		g, ok := got.Payload.(*PackageVersionAnsPayload)
		verifAssert(ok, "PackageVersionAns: decoded payload has the encoded type")
		if !ok {
			return
		}
		verifAssert(g.PackageIdentifier == w.PackageIdentifier, "PackageVersionAns.PackageIdentifier decodes back unchanged")
		verifAssert(g.PackageVersion == w.PackageVersion, "PackageVersionAns.PackageVersion decodes back unchanged")
	case *FragSessionStatusAnsPayload:
		g, ok := got.Payload.(*FragSessionStatusAnsPayload)
		verifAssert(ok, "FragSessionStatusAns: decoded payload has the encoded type")
		if !ok {
			return
		}
		verifAssert(g.ReceivedAndIndex.FragIndex == w.ReceivedAndIndex.FragIndex, "FragSessionStatusAns.ReceivedAndIndex.FragIndex decodes back unchanged")
		verifAssert(g.ReceivedAndIndex.NbFragReceived == w.ReceivedAndIndex.NbFragReceived, "FragSessionStatusAns.ReceivedAndIndex.NbFragReceived decodes back unchanged")
		verifAssert(g.MissingFrag == w.MissingFrag, "FragSessionStatusAns.MissingFrag decodes back unchanged")
		verifAssert(g.Status.NotEnoughMatrixMemory == w.Status.NotEnoughMatrixMemory, "FragSessionStatusAns.Status.NotEnoughMatrixMemory decodes back unchanged")
	case *FragSessionSetupAnsPayload:
		g, ok := got.Payload.(*FragSessionSetupAnsPayload)
		verifAssert(ok, "FragSessionSetupAns: decoded payload has the encoded type")
		if !ok {
			return
		}
		verifAssert(g.StatusBitMask.FragIndex == w.StatusBitMask.FragIndex, "FragSessionSetupAns.StatusBitMask.FragIndex decodes back unchanged")
		verifAssert(g.StatusBitMask.WrongDescriptor == w.StatusBitMask.WrongDescriptor, "FragSessionSetupAns.StatusBitMask.WrongDescriptor decodes back unchanged")
		verifAssert(g.StatusBitMask.FragSessionIndexNotSupported == w.StatusBitMask.FragSessionIndexNotSupported, "FragSessionSetupAns.StatusBitMask.FragSessionIndexNotSupported decodes back unchanged")
		verifAssert(g.StatusBitMask.NotEnoughMemory == w.StatusBitMask.NotEnoughMemory, "FragSessionSetupAns.StatusBitMask.NotEnoughMemory decodes back unchanged")
		verifAssert(g.StatusBitMask.EncodingUnsupported == w.StatusBitMask.EncodingUnsupported, "FragSessionSetupAns.StatusBitMask.EncodingUnsupported decodes back unchanged")
	case *FragSessionDeleteAnsPayload:
		g, ok := got.Payload.(*FragSessionDeleteAnsPayload)
		verifAssert(ok, "FragSessionDeleteAns: decoded payload has the encoded type")
		if !ok {
			return
		}
		verifAssert(g.Status.FragIndex == w.Status.FragIndex, "FragSessionDeleteAns.Status.FragIndex decodes back unchanged")
		verifAssert(g.Status.SessionDoesNotExist == w.Status.SessionDoesNotExist, "FragSessionDeleteAns.Status.SessionDoesNotExist decodes back unchanged")
	case *FragSessionStatusReqPayload:
		g, ok := got.Payload.(*FragSessionStatusReqPayload)
		verifAssert(ok, "FragSessionStatusReq: decoded payload has the encoded type")
		if !ok {
			return
		}
		verifAssert(g.FragStatusReqParam.FragIndex == w.FragStatusReqParam.FragIndex, "FragSessionStatusReq.FragStatusReqParam.FragIndex decodes back unchanged")
		verifAssert(g.FragStatusReqParam.Participants == w.FragStatusReqParam.Participants, "FragSessionStatusReq.FragStatusReqParam.Participants decodes back unchanged")
	case *FragSessionSetupReqPayload:
		g, ok := got.Payload.(*FragSessionSetupReqPayload)
		verifAssert(ok, "FragSessionSetupReq: decoded payload has the encoded type")
		if !ok {
			return
		}
		verifAssert(g.FragSession.FragIndex == w.FragSession.FragIndex, "FragSessionSetupReq.FragSession.FragIndex decodes back unchanged")
		for i := range w.FragSession.McGroupBitMask {
			verifAssert(g.FragSession.McGroupBitMask[i] == w.FragSession.McGroupBitMask[i], "FragSessionSetupReq.FragSession.McGroupBitMask decodes back unchanged")
		}
		verifAssert(g.NbFrag == w.NbFrag, "FragSessionSetupReq.NbFrag decodes back unchanged")
		verifAssert(g.FragSize == w.FragSize, "FragSessionSetupReq.FragSize decodes back unchanged")
		verifAssert(g.Control.FragmentationMatrix == w.Control.FragmentationMatrix, "FragSessionSetupReq.Control.FragmentationMatrix decodes back unchanged")
		verifAssert(g.Control.BlockAckDelay == w.Control.BlockAckDelay, "FragSessionSetupReq.Control.BlockAckDelay decodes back unchanged")
		verifAssert(g.Padding == w.Padding, "FragSessionSetupReq.Padding decodes back unchanged")
		verifAssert(verifBytesEq(g.Descriptor[:], w.Descriptor[:]), "FragSessionSetupReq.Descriptor decodes back unchanged")
	case *FragSessionDeleteReqPayload:
		g, ok := got.Payload.(*FragSessionDeleteReqPayload)
		verifAssert(ok, "FragSessionDeleteReq: decoded payload has the encoded type")
		if !ok {
			return
		}
		verifAssert(g.Param.FragIndex == w.Param.FragIndex, "FragSessionDeleteReq.Param.FragIndex decodes back unchanged")
	case *DataFragmentPayload:
		g, ok := got.Payload.(*DataFragmentPayload)
		verifAssert(ok, "DataFragment: decoded payload has the encoded type")
		if !ok {
			return
		}
		verifAssert(g.IndexAndN.FragIndex == w.IndexAndN.FragIndex, "DataFragment.IndexAndN.FragIndex decodes back unchanged")
		verifAssert(g.IndexAndN.N == w.IndexAndN.N, "DataFragment.IndexAndN.N decodes back unchanged")
		verifAssert(len(g.Payload) == len(w.Payload), "DataFragment.Payload decodes back with the encoded length")
		if len(g.Payload) == len(w.Payload) {
			verifAssert(verifBytesEq(g.Payload, w.Payload), "DataFragment.Payload decodes back unchanged")
		}
	default:
		verifAssert(false, "harness: unknown payload type")
	}
}

// RoundTrip: one command, every field within its specified bit width.
func VerifC18_RoundTrip(up, idx, variant int) {
	cmd, ok := c18Build(up, idx, variant, "", false)
	if !ok {
		verifReach("n/a")
		return
	}
	b, err := cmd.MarshalBinary()
	verifAssert(err == nil, "a command whose fields lie within their bit widths encodes without error")
	if err != nil {
		verifReach("encode-error")
		return
	}
	verifAssert(len(b) == cmd.Size(), "encoded length == Command.Size()")
	if cmd.Payload != nil {
		verifAssert(len(b) == cmd.Payload.Size()+1, "encoded length == payload Size() + 1")
	} else {
		verifAssert(len(b) == 1, "a command without payload encodes to its CID byte")
	}
	var got Command
	err = got.UnmarshalBinary(up != 0, verifCopy(b))
	verifAssert(err == nil, "the encoding of a command decodes without error")
	if err != nil {
		verifReach("decode-error")
		return
	}
	verifAssert(got.Size() == len(b), "decoded command reports the encoded length as its size")
	c18Same(cmd, got)
	verifReach("done")
}

// c18SeqArg splits a sequence index into (idx, variant): i = idx + 100*variant.
func c18SeqArg(i int) (int, int) { return i % 100, i / 100 }

// Seq: up to two commands concatenated in one payload decode to the same sequence.
func VerifC18_Seq(up, i1, i2 int) {
	var want Commands
	if i1 >= 0 {
		idx, variant := c18SeqArg(i1)
		c, ok := c18Build(up, idx, variant, "c1.", false)
		if !ok {
			verifReach("n/a")
			return
		}
		want = append(want, c)
	}
	if i2 >= 0 {
		idx, variant := c18SeqArg(i2)
		c, ok := c18Build(up, idx, variant, "c2.", false)
		if !ok {
			verifReach("n/a")
			return
		}
		want = append(want, c)
	}
	b, err := want.MarshalBinary()
	verifAssert(err == nil, "seq: commands whose fields lie within their bit widths encode without error")
	if err != nil {
		verifReach("encode-error")
		return
	}
	total := 0
	for _, c := range want {
		total += c.Size()
	}
	verifAssert(len(b) == total, "seq: encoded length == sum of the command sizes")
	var got Commands
	err = got.UnmarshalBinary(up != 0, verifCopy(b))
	verifAssert(err == nil, "seq: concatenated commands decode without error")
	if err != nil {
		verifReach("decode-error")
		return
	}
	verifAssert(len(got) == len(want), "seq: decodes into the same number of commands")
	if len(got) != len(want) {
		verifReach("count-mismatch")
		return
	}
	for k := range want {
		c18Same(want[k], got[k])
	}
	verifNoGlobalWritesExcept("") // C10: no hidden package-level state is written
	verifReach("done")
}

// NoPanic: every field over its whole Go type; encoding and Size must not panic.
func VerifC18_NoPanic(up, idx, variant int) {
	cmd, ok := c18Build(up, idx, variant, "", true)
	if !ok {
		verifReach("n/a")
		return
	}
	b, err := cmd.MarshalBinary()
	n := cmd.Size()
	if err == nil {
		verifAssert(len(b) == n, "an accepted command value encodes to exactly Size() bytes")
	}
	verifReach("done")
}
